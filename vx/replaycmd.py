"""replay_cmd PATH: show a replay file; when it carries a concrete witness, re-run it on the real code.
   * Kani witness: prints the concrete playback test and re-runs the harness (cargo kani --harness ..) on /repo
   * recorded input (known findings): runs the replay crate (vreplay) with the recorded arguments
   * otherwise: prints the failed obligation, its location in /repo and the verifier's diagnostic, and re-runs the
     unit so that the reader sees the obligation fail (or pass) on the current tree"""
import json
import os
import subprocess
import sys

VERIF = os.path.dirname(os.path.dirname(os.path.abspath(__file__)))


def main():
    if len(sys.argv) < 2:
        print(__doc__)
        return 2
    d = json.load(open(sys.argv[1]))
    print('property   :', d.get('property'))
    print('obligation :', d.get('obligation'))
    print('unit/fn    :', d.get('unit'), '/', d.get('function'))
    print('repo       :', d.get('repo_location'))
    print('contract   :', d.get('contract_location'))
    print('kind       :', d.get('kind'))
    w = d.get('witness')
    if w and w.get('source', '').startswith('kani'):
        print('--- kani counterexample (concrete playback) ---')
        print(w.get('playback'))
        h = d.get('function')
        print('--- re-running harness %s on /repo ---' % h)
        env = dict(os.environ, CARGO_NET_OFFLINE='true', CARGO_TARGET_DIR=os.path.join(VERIF, 'kani-target'))
        p = subprocess.run(['cargo', 'kani', '-p', 'sv-parser-pp', '-Z', 'function-contracts', '--harness', h], cwd=os.environ.get('VERIF_REPO', '/repo'), env=env,
                           stdout=subprocess.PIPE, stderr=subprocess.STDOUT)
        out = p.stdout.decode()
        print('\n'.join(l for l in out.split('\n') if 'VERIFICATION' in l or 'Failed Checks' in l))
        return 1 if 'VERIFICATION:- FAILED' in out else 0
    if w and w.get('args'):
        from vx import replayeng
        ok, out = replayeng.build()
        if not ok:
            print('replay crate does not build:', out[-300:])
            return 2
        p = subprocess.run([replayeng.BIN] + w['args'], stdout=subprocess.PIPE, stderr=subprocess.STDOUT)
        print(p.stdout.decode())
        return 0
    print('--- no concrete failing input (no-failing-input-found); verifier output ---')
    print(json.dumps(d.get('verifier_output'), indent=1))
    unit = d.get('unit')
    p_ = os.path.join(VERIF, 'units', str(unit) + '.vx')
    if os.path.exists(p_):
        print('--- re-running unit %s on the current tree ---' % unit)
        from vx.run import run_unit
        r = run_unit(p_)
        hit = [f for f in r['failures'] if (f.get('label') or '') == d.get('obligation') or f['fn'] == d.get('function')]
        print('unit status:', r['status'], '| obligation still failing:' if hit else '| obligation no longer failing', json.dumps(hit[:2])[:600] if hit else '')
        return 1 if hit else 0
    return 0


if __name__ == '__main__':
    sys.exit(main())
