"""registry - which machinery decides which property, and what it leaves uncovered."""

TRUSTED_COMMON = [
    'Verus 0.2026.09.13 and its bundled z3 (SMT back end)',
    'rustc front end of the Verus toolchain',
    'vx extractor/splicer (vx/rsx.py, vx/unit.py): cuts the real function text from /repo on every run; rewrite rules are logged below',
    'machine integers are machine integers (usize = 64 bit); no mathematical-integer idealisation of executable code',
]

SHIMS = {
    'A-btree': 'std BTreeMap<Range,Origin> under Range\'s non-lawful Ord behaves like a sorted-sequence search for probes whose comparisons are Greater* (Equal|Less)? Less* (assumed contract in units/pt.vx; the probe-monotone precondition is PROVED at every call)',
    'A-str': 'String/str are byte sequences: push_str appends, len is the byte length, no string exceeds isize::MAX bytes (std aborts first)',
    'A-path/fs': 'Path/PathBuf are opaque values with an identity; PathBuf::from/clone/as_ref preserve it',
    'A-arith': 'at the macro-expansion push the defining range begin + expansion length fits in usize (precondition of push; proved at copy sites)',
    'A-node': 'RefNode is an opaque handle; children are given by the derive-generated next(); trees are finite',
    'A-glue': 'the event loop of preprocess_str dispatches each non-skipped event to the arm selected by Rust match and nothing else touches the loop state (the loop itself is not verified)',
    'A-hashmap': 'HashMap<String,_> is a finite map keyed by the string bytes',
    'A-vec': 'vstd Vec specifications, plus <[T]>::reverse reverses the view',
    'A-nom': 'nom/nom_locate primitives and combinators have their documented sequencing semantics (see DESIGN 2.3)',
    'A-packrat': '#[packrat_parser] returns what the body would return (that is C17), #[recursive_parser] only turns some calls into failures',
    'A-strconcat': 'str_concat::concat(a,b) is Ok(a++b) iff b starts where a ends',
}

PROPS = {
    'C03': dict(
        title='origin map',
        units=['pt'],
        shims=['A-btree', 'A-str', 'A-path/fs', 'A-arith', 'A-glue'],
        design='DESIGN.md 3/C03',
        technique='contract-based deductive verification (Verus) of the real PreprocessedText/Range code extracted from /repo on every run',
        level_text='Deductive proof, for all segment lists, offsets and strings, that push/merge keep the origin map a tiling of the output text recording exactly the range handed in, that origin()/get_origin return the containing segment\'s (file, offset) or None, and that every emission site of the preprocessor hands in the range of the text it copies. A change that records a wrong range, loses a segment or breaks the lookup fails a named postcondition.',
        level_note='Assumed: std BTreeMap search behaviour under the non-lawful Ord (probe precondition proved), String/Path shims, the dispatch loop of preprocess_str, Verus+z3. See evidence.assumptions.',
        not_covered=[
            'the dispatch loop of preprocess_str (A-glue)',
            'PreprocessedText::text() (String -> &str deref is shimmed away)',
            'that Locate values found in the pp tree tile the source (that is C01/G-faithful for the pp grammar)',
        ],
    ),
}

NOT_APPLICABLE = {
    'C02': 'the oracle is the set of Annex A sentences and their production labels; a contract able to state it would restate the 1.3k-production grammar, and PEG ordered choice over it is not a per-function property (DESIGN.md 4)',
    'C12': 'a relation between two parses of two different inputs over every production and trivia assignment (hyperproperty); per-function contracts do not compose to it without a proof about the whole PEG (DESIGN.md 4)',
    'C14': 'statements about the language accepted by the whole grammar and about nom-greedyerror deepest-failure bookkeeping, neither is a contract of a function within reach (DESIGN.md 4)',
    'C19': 'neither Verus (without concurrency tokens the code does not use) nor Kani (no threads) reasons about interleavings; a scan for thread_local is not a proof (DESIGN.md 4)',
}
