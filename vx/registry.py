"""registry - which machinery decides which property, and what it leaves uncovered."""

TRUSTED_COMMON = [
    'Verus 0.2026.09.13 and its bundled z3 (SMT back end)',
    'rustc front end of the Verus toolchain',
    'vx extractor/splicer (vx/rsx.py, vx/unit.py): cuts the real function text from /repo on every run; rewrite rules are logged below',
    'machine integers are machine integers (usize = 64 bit); no mathematical-integer idealisation of executable code',
]

SHIMS = {
    'A-btree': 'std BTreeMap<Range,Origin> under Range\'s non-lawful Ord behaves like a sorted-sequence search for probes whose comparisons are Greater* (Equal|Less)? Less* (assumed contract in units/pt.vx; the probe-monotone precondition is PROVED at every call)',
    'A-str': 'String/str are byte sequences: push_str appends, len is the byte length, no string exceeds isize::MAX bytes (std aborts first)',
    'A-path/fs': 'Path/PathBuf are opaque values with an identity; PathBuf::from/clone/as_ref preserve it',
    'A-arith': 'at the macro-expansion push the defining range begin + expansion length fits in usize (precondition of push; proved at copy sites)',
    'A-node': 'RefNode is an opaque handle; children are given by the derive-generated next(); trees are finite',
    'A-glue': 'R-outline: unit glue verifies the event loop of preprocess_str with each arm BODY replaced by a call of the function unit arms verified that body as (same parameter names; that an arm hands back every loop variable it assigns is a syntactic side condition, checked). What remains assumed: the order in which Rust evaluates the three matches of one iteration is the textual one, and the grammar invariant tree_ok of the parsed pp tree (C01 for the pp grammar).',
    'A-hashmap': 'HashMap<String,_> is a finite map keyed by the string bytes',
    'A-vec': 'vstd Vec specifications, plus <[T]>::reverse reverses the view',
    'A-nom': 'nom/nom_locate primitives and combinators have their documented sequencing semantics (see DESIGN 2.3)',
    'A-packrat': '#[packrat_parser] returns what the body would return (that is C17), #[recursive_parser] only turns some calls into failures',
    'A-pplex': 'WHAT TEXT each production of the preprocessor grammar accepts (where a macro body or a default text ends, what separates arguments, what is a comment, a string, an escaped identifier) is behaviour of nom closures no contract here reaches; the arms are verified against grammar invariants of the tree those productions build. The assumption is backed for the pinned text of the productions only (suite, golden files, bounded stand-ins): gvc.assumed compares each listed production with its committed fingerprint (gvc/baseline.json) and makes the property UNDECIDED when one differs',
    'A-strconcat': 'str_concat::concat(a,b) is Ok(a++b) iff b starts where a ends',
}

PROPS = {
    'C03': dict(
        title='origin map',
        units=['pt', 'arms', 'rtmu', 'glue', 'derive', 'getstr', 'prologue', 'wrap'],
        shims=['A-btree', 'A-str', 'A-path/fs', 'A-arith', 'A-glue'],
        design='DESIGN.md 3/C03',
        technique='contract-based deductive verification (Verus) of the real PreprocessedText/Range code extracted from /repo on every run',
        level_text='Deductive proof, for all segment lists, offsets and strings, that push/merge keep the origin map a tiling of the output text recording exactly the range handed in, that origin()/get_origin return the containing segment\'s (file, offset) or None, and that every emission site of the preprocessor hands in the range of the text it copies. A change that records a wrong range, loses a segment or breaks the lookup fails a named postcondition.',
        level_note='Assumed: std BTreeMap search behaviour under the non-lawful Ord (probe precondition proved), String/Path shims, the dispatch loop of preprocess_str, Verus+z3. See evidence.assumptions.',
        not_covered=[
            'that the arm contracts compose, over the event sequence, to one statement about the whole output (unit glue proves the loop keeps every arm precondition and the text well formed; it has no functional specification of the whole run)',
            'that Locate values found in the pp tree tile the source (that is C01/G-faithful for the pp grammar)',
        ],
    ),
}

PROPS['C20'] = dict(
    title='entry points agree',
    units=['wrap', 'depth', 'kwstack'],
    engines=[dict(module='gvc.engine', args=dict(analyses=('stateless', 'entries')))],
    shims=['A-path/fs', 'A-str', 'A-hashmap'],
    design='DESIGN.md 3/C20',
    technique='contract-based deductive verification (Verus) of the verbatim wrapper bodies; callees carry an assumed contract attached to their real signature and keyed by parameter name',
    level_text='Deductive proof over the real bodies of preprocess, preprocess_inner, parse_sv, parse_sv_str, parse_lib, parse_lib_str, parse_sv_pp and parse_lib_pp that each equals its callee applied to the NAMED arguments (file route = str route on the file contents = preprocess followed by parse_*_pp, strip_comments off, depths 0/0) for every flag combination, define table and include-path list. A wrapper that swaps, drops or hard-codes a flag, short-cuts a case or alters the result fails its postcondition.',
    level_note='Fourth pass: what init() resets (unit kwstack: clear_version / clear_directive empty their stacks; gvc.frame: each touches its own thread-local) is a premise of the agreement of entry points called one after the other on a thread. Frame: the crates holding the wrappers declare no static, thread_local, lazy or atomic state (gvc.stateless inventory), so the uninterpreted callee functions may depend on the named arguments and the file system only. Assumed: the ghost file system is constant during a call; preprocess_str and the four parser entry points are uninterpreted functions of their named parameters; shims for File/BufReader/PathBuf/HashMap; Verus+z3.',
    not_covered=['determinism of preprocess_str / the parsers themselves (C07)', 'wrappers are checked against uninterpreted callee functions, i.e. agreement, not correctness of the result'],
)
PROPS['C09'] = dict(
    title='bounded recursion',
    units=['depth', 'wrap', 'rtmu', 'arms', 'prologue'],
    shims=['A-pplex'],
    design='DESIGN.md 3/C09',
    technique='contract-based deductive verification (Verus) of the mechanically sliced recursion skeleton (guards + recursive calls with real argument expressions) of the real functions, with a termination measure',
    level_text='Deductive proof, for all depths and all interleavings of include and macro recursion, on the recursion skeleton cut from the real preprocess / preprocess_inner / preprocess_str / resolve_text_macro_usage: a lexicographic measure over both counters decreases at every recursive call (all cycles terminate), each guard returns ExceedRecursiveLimit exactly when its counter exceeds 64, and a counter never exceeds the true nesting depth, so chains of legal depth never trip a guard.',
    level_note='Fourth pass: the second sentence of the property (legal depths succeed) additionally rests on the define table coming back from an expansion / an include being adopted (unit arms, clauses also labelled C09) and on the include and macro productions of the pp grammar being the pinned ones (A-pplex, gvc.assumed; the angle-bracket file name and the token wrappers are decided by gvc.lexers). The skeleton drops everything except guards and the recursive calls (rule R-slice); sound because the slicer refuses when a depth parameter is assigned, shadowed or passed through a non-trivial expression. Callers of the public preprocess_str are assumed to pass resolve_depth <= 64 and include_depth <= 65 (every in-repo caller passes 0). Stack exhaustion is outside the claim.',
    not_covered=['that a legal chain yields the fully expanded text (C05/C10)', 'the once-per-level Include wrapping of the error (V-arms include)'],
)
PROPS['C18'] = dict(
    title='strip_comments',
    units=['depth', 'wrap', 'arms', 'rtmu', 'split', 'derive', 'getstr', 'pphelp'],
    shims=['A-glue', 'A-pplex'],
    design='DESIGN.md 3/C18',
    technique='contract-based deductive verification (Verus): flag forwarding on the recursion skeleton and at the entry wrappers; arm-guard obligations on the lifted match arms',
    level_text='Deductive proof that strip_comments is forwarded unchanged at every recursive call site and entry wrapper (all four recursion sites, both flags kept apart by parameter name), and that only comment arms depend on the flag.',
    level_note='Partial: equality of token sequences, define tables and errors between the two modes is a relation between two runs and is not decided (a comment that is the only separator, K6, is re-demonstrated by replay only).',
    not_covered=['token-level equality between the two modes (K6)', 'composition of the arm contracts over the event sequence (A-glue)'],
)

PROPS['C16'] = dict(
    title='traversal',
    units=['iter', 'conv', 'derive', 'getstr'],
    engines=[dict(module='gvc.engine', args=dict(analyses=('faithful', 'lexers')))],
    shims=['A-node', 'A-vec'],
    design='DESIGN.md 3/C16',
    technique='contract-based deductive verification (Verus) of the verbatim Iter/EventIter bodies, of every From<&..> for RefNodes conversion, of the instantiated derive templates and of get_str/get_str_trim/unwrap_*!; pre-order and balanced-event theorems as lemmas over the step contracts',
    level_text='Deductive proof for all trees: Iter::next/EventIter::next satisfy their one-step stack contracts, from which lemmas show that iteration yields the node first and then its descendants in child order, that the event view is Enter(n) . events(children) . Leave(n) (balanced, nested) and that its Enter projection is the plain iteration; every tuple/Vec/Option/Box/Paren/List conversion yields its components in field order; the derive template enumerates self.nodes / the enum payload and starts iteration at the node itself; unwrap_node!/unwrap_locate! return the first match; get_str_trim spans the first to the last leaf not under a WhiteSpace node.',
    level_note='Fourth pass: "source order" = field order rests on gvc.faithful (every production stores what it consumed in the order it consumed it), which is run with this check. Assumed: RefNode is an opaque handle with finite height; vstd Vec specs and slice::reverse; the derive templates are verified on one stub struct and one stub enum instance (the template text is the same for all 1242 types); macro transcribers are verified with the immediately-invoked closure replaced by its body.',
    not_covered=['that the build script generates one RefNode/AnyNode variant per derive(Node) type (the templates are verified on a five-variant instance)'],
)

ARMS_NOTE = 'The arms of preprocess_str are verified one by one (rule R-arm); the loop around them is verified in unit glue with the arm bodies outlined (A-glue): it establishes every arm precondition from one grammar invariant, keeps the text well formed, starts from the stated initial state and returns the accumulated text and table; an arm the contracts do not know makes the unit undecided. Callees carry contracts proved in other units (push/merge: pt; Locate::str: getstr; try_into fold: derive) or assumed on their real signature (preprocess_inner, resolve_text_macro_usage, identifier). Grammar invariants (each node has a contiguous leaf inside s, identifiers present) are preconditions.'
PROPS['C04'] = dict(
    title='conditional compilation',
    units=['arms', 'pphelp', 'glue', 'derive', 'getstr', 'prologue', 'rtmu', 'kwstack', 'wrap'],
    shims=['A-glue', 'A-hashmap', 'A-str', 'A-node', 'A-pplex'],
    design='DESIGN.md 3/C04',
    technique='contract-based deductive verification (Verus) of the verbatim IfdefDirective / IfndefDirective arms against an IEEE 22.6 selection spec function, loop invariant over the `elsif chain',
    level_text='Deductive proof, for every chain length, every define table and every combination of condition outcomes, that on entering `ifdef/`ifndef the arm puts on the skip list the directive keywords, the identifiers and every group except the one IEEE 1800-2017 22.6 selects (first branch whose name is defined, `else if none); table mutations happen only in arms of the same match (un-skipped events).',
    level_note=ARMS_NOTE + ' Two call sites are genuinely wrong for predefined names in `elsif position and are listed as known findings; the clause for chains without predefined `elsif names must verify.',
    not_covered=['that the event loop as a whole skips exactly the subtrees of listed nodes (the toggle arms, the initial skip state and the position of `if skip { continue; }` are checked; the composition over the event sequence needs C16 and is not stated as one theorem)', 'token-for-token equality of the surviving text'],
)
PROPS['C05'] = dict(
    title='macro expansion',
    units=['arms', 'depth', 'split', 'rtmu', 'pphelp', 'derive', 'getstr', 'prologue', 'kwstack', 'wrap'],
    shims=['A-glue', 'A-hashmap', 'A-str', 'A-arith', 'A-pplex'],
    design='DESIGN.md 3/C05',
    technique='contract-based deductive verification (Verus) of the verbatim TextMacroUsage arm and of the actual/formal binding block of resolve_text_macro_usage',
    level_text='Deductive proof that the usage arm pushes the expansion with the origin of the definition, adopts the table that comes back, propagates DefineNotFound/DefineNoArgs/DefineArgNotFound unchanged, suppresses the usage subtree and copies the trailing white space with its own range; that the binding block maps the i-th formal to the i-th actual, its default when omitted, and reports the three named errors; that split_text equals a reference tokeniser derived from 22.5.1 (identifier/other runs, string literals intact, one-line comments dropped, `\" closes a run); and that nested preprocessing receives the live define table.',
    level_note=ARMS_NOTE + ' Partial: the `replace` chain (`` , `\\`\", `\", line continuations) works on uninterpreted string functions and argument lexing lives in the parser and is only covered by a BOUNDED stand-in (every well-nested actual-argument text up to 5 bytes, 7 in the thorough tier, through the real preprocess_str; labelled bounded, not counted as proved); split_text itself is proved equal to a reference tokeniser.',
    not_covered=['the replace chain (``, escaped quotes, line continuations): str::replace is an uninterpreted function here', 'argument lexing in the parser', 'that the recursive re-preprocessing yields the fully expanded text'],
)
PROPS['C06'] = dict(
    title='pass-through',
    units=['arms', 'pt', 'glue', 'loc', 'derive', 'getstr', 'pphelp', 'wrap', 'depth'],
    shims=['A-glue', 'A-str', 'A-pplex'],
    design='DESIGN.md 3/C06',
    technique='contract-based deductive verification (Verus) of the directive-free emission arms (copy exactly the bytes of their own leaf, identity origin) plus once-only obligations',
    level_text='Deductive proof that the NotDirective, Comment, StringLiteral and EscapedIdentifier arms append exactly the bytes of the locate they copy and record the identical source range, and that kept-directive arms suppress their trailing white space so nothing is emitted twice.',
    level_note=ARMS_NOTE + ' Two arms genuinely emit trailing trivia twice (known findings K3, K4, frozen by golden files). Partial: the fixed-point clause is not decided; of the rejection conditions, position-wise acceptance of directive-free text by the run production is decided by a two-byte look-ahead analysis (gvc.pptotal), the lexers of comments, strings and escaped identifiers are decided by generated position-wise obligations (gvc.lexers: a block comment runs to the FIRST `*/` and may be empty, a one-line comment to its newline, a string literal to the first unescaped quote with a backslash escaping exactly one character, an escaped identifier to the next white space; all 256 x 257 (byte, next byte / end) classes), and their composition in the run production additionally by a BOUNDED stand-in (every text over an 8-symbol alphabet up to 5 bytes, 7 in the thorough tier, through the real preprocess_str; labelled bounded, not counted as proved).',
    not_covered=['fixed point of successful runs', 'the lexers of comments, strings and escaped identifiers are decided position-wise by gvc.lexers under A-nom (semantics of tag / is_not / take / many0 / alt / peek / not as documented); that the whole run production composes them is the bounded stand-in c06bound'],
)
PROPS['C10'] = dict(
    title='include',
    units=['arms', 'depth', 'wrap', 'rtmu', 'glue', 'prologue', 'derive', 'getstr', 'pphelp'],
    shims=['A-glue', 'A-path/fs', 'A-hashmap', 'A-pplex'],
    design='DESIGN.md 3/C10',
    technique='contract-based deductive verification (Verus) of the verbatim IncludeCompilerDirective arm incl. the include-path search loop; nested preprocessing as an uninterpreted function of named parameters',
    level_text='Deductive proof for any number and order of include paths that the file used is the given path when absolute or existing, else the first include path that contains it, else the given path; that the nested run receives the live define table, ignore_include=false, include_depth+1, that its table is adopted and its text/origins merged, that errors are wrapped once in Include, that a same-line item yields IncludeLine, that the arm fires iff !ignore_include, and that the table handed to a (nested) run reaches its working table with every entry intact (prologue clause caller-entries-win).',
    level_note=ARMS_NOTE + ' The ghost file system is constant during a call. Partial: file-name extraction is string trimming over uninterpreted functions.',
    not_covered=['file-name extraction semantics of trim_matches etc.', 'composition of the same-line arms over the event sequence (each arm is proved; unit glue proves the loop establishes their preconditions, not a whole-run statement)', 'ignore_include: that a literal directive contributes no tokens'],
)
PROPS['C11'] = dict(
    title='define table',
    units=['arms', 'prologue', 'rtmu', 'wrap', 'depth', 'glue', 'pphelp', 'derive', 'getstr', 'kwstack'],
    shims=['A-glue', 'A-hashmap', 'A-str', 'A-pplex'],
    design='DESIGN.md 3/C11',
    technique='contract-based deductive verification (Verus) of the verbatim `define / `undef / `undefineall arms and of the table adoption at include and expansion',
    level_text='Deductive proof that the table is seeded with the 15 coverage constants and then every caller entry (caller wins), that `undef removes exactly the named entry, `undefineall empties the table, `define X inserts or replaces exactly X with an entry recording the formal names, default texts and body text as written (origin = defining file and body range) unless X is predefined, and that no other arm writes the table except adopting the one returned by an include or an expansion.',
    level_note=ARMS_NOTE + ' Partial: the two-file equivalence is not decided. The statement sets the SV_COV_* entries aside: their names and values are compared with IEEE 40.3.1 by an informational clause of unit prologue that is no obligation of C11 and can never raise a violation.',
    not_covered=['equivalence with preprocessing the concatenated files'],
)

GVC_NOTE = 'gvc parses the real parser sources on every run; callee CONTRACTS (never bodies) are used; the generator (tokeniser, combinator table, symbolic evaluation) is trusted and is tested against deliberately broken bodies. Assumed: A-nom, A-packrat, A-strconcat.'
REPLAY = dict(module='vx.replayeng', tier='thorough')
PROPS['C01'] = dict(
    title='lossless tree',
    units=['conv', 'derive', 'getstr', 'iter', 'loc', 'wrap'],
    engines=[dict(module='gvc.engine', args=dict(analyses=('faithful', 'nullable')))],
    shims=['A-nom', 'A-packrat', 'A-strconcat', 'A-node', 'A-vec', 'A-str'],
    design='DESIGN.md 3/C01',
    technique='generated per-production verification conditions (faithful: consumed fragments == leaves in derive order) discharged by Verus/z3, plus Verus contracts on the real conversion / derive / get_str code',
    level_text='For each of the ~1300 productions and the utils.rs combinators a generated lemma states that the leaves of the returned node, in derive order, are exactly the fragments consumed, in order, once each (a dropped token, a token stored twice, swapped fields, a terminated/preceded that discards a consuming parser, a stored look-ahead all make the lemma unprovable); the top-level productions start with the leading trivia and read to eof (prefix in incomplete mode); children are enumerated in field order (conv, derive), iteration is pre-order (iter), the Locate fold and get_str span first to last leaf (derive, getstr).',
    level_note=GVC_NOTE + ' Every production of the pinned tree is inside the analysed subset (method_call through the generated fold induction, rule L3).',
    not_covered=['that primitives (tag, is_a, ..) report exact offsets/lines (A-nom)', 'line numbers of leaves (nom_locate)'],
)
PROPS['C07'] = dict(
    title='history independence',
    units=['kwstack'],
    engines=[dict(module='gvc.engine', args=dict(analyses=('frame', 'kwsites')))],
    shims=['A-packrat', 'A-pplex'],
    design='DESIGN.md 3/C07',
    technique='frame conditions over the call graph of the real parser sources, checked modularly (least fixpoint of effect summaries), plus inventory of statics in all six crates',
    level_text='The state any call can observe besides its arguments and files is the fresh-thread state: the statics of sv-parser-parser are exactly the memo table, the directive stack and the keyword-version stack; init() empties each of them; each of the five public parser entries calls init() first; the other crates declare no static, thread_local, lazy or atomic state; at most 128 #[recursive_parser] functions exist; begin/end of directive and keyword scopes are paired on every path.',
    level_note='Frame conditions are decided by the generator (back end gvc-effects), not SMT. A static hidden behind a macro of a new dependency would escape the inventory. Determinism of dependencies (HashMap iteration order, only used to copy entries) is assumed.',
    not_covered=['determinism of the dependencies themselves', 'nom_recursive RECURSIVE_STORAGE (name -> bit index table; cannot change a result below 128 names)'],
)
PROPS['C13'] = dict(
    title='reserved words',
    units=['kwstack', 'arms'],
    engines=[dict(module='gvc.engine', args=dict(analyses=('ident', 'faithful', 'kwsites', 'lexers', 'entries'))), REPLAY],
    shims=['A-nom', 'A-packrat'],
    design='DESIGN.md 3/C13',
    technique='Verus contracts on the keyword-version stack and is_keyword (unit kwstack); generated obligations on the identifier lexers and the keyword tables of the real parser sources (construction sites, keyword check, table contents against the reference lists, begin/end pairing on every path)',
    level_text='Every construction site of SimpleIdentifier/CIdentifier takes its Locate from a lexer of the form "whole word; if is_keyword(word) fail"; unit kwstack (Verus, bodies verbatim with the two thread-locals as explicit parameters): begin_keywords pushes exactly the version its specifier names (IEEE 22.14), end_keywords pops exactly one, is_keyword(w) is membership of w in the table of the innermost open region and in the 1800-2017 table outside every region; version_specifier passes the literal it matched; keyword(t) requires a word boundary; begin/end of the directive keyword set are paired on every path including every ? exit.',
    level_note=GVC_NOTE + ' Assumed, not proved: under backtracking and memo hits the version stack equals the open `begin_keywords regions (known to break under eviction: K8).',
    not_covered=['A-version-stack (K7/K8)', 'contents of the keyword tables against the standards'],
)
PROPS['C15'] = dict(
    title='incomplete mode',
    units=['wrap', 'kwstack'],
    engines=[dict(module='gvc.engine', args=dict(analyses=('nullable', 'entries', 'faithful', 'assumed', 'frame')))],
    shims=['A-nom', 'A-packrat'],
    design='DESIGN.md 3/C15',
    technique='generated nullable/manyok fixpoint over all productions, shape rules on the four top-level productions, absence of Failure producers; Verus contract on parse_sv_pp / parse_lib_pp (mode switch, Error::Parse only from a parser Err)',
    level_text='The incomplete entry points cannot return Err: their productions consist only of many0/opt steps, every repeated parser is non-nullable, and nothing in the parser crate produces Err::Failure (no cut); strict and incomplete productions are identical except many_till(description, eof) vs many0(description), so they build the same tree when strict accepts; parse_*_pp selects the incomplete parser iff allow_incomplete and reports Error::Parse only from a parser Err.',
    level_note=GVC_NOTE + ' Fourth pass: Error::Parse is constructed by parse_sv_pp / parse_lib_pp (and their private helpers) and nowhere else in the six crates (gvc.entries), so the preprocessing half of parse_*_str cannot report it; what init() resets (unit kwstack) is a premise of the equal-trees clause.  Partial: "appending unparsable text leaves the tree unchanged" needs prefix-independence of every look-ahead and is not decided.',
    not_covered=['appended unparsable tail leaves the tree unchanged', 'equality of trees relies on determinism of the productions (C07/C17)'],
)
PROPS['C17'] = dict(
    title='memo transparency',
    units=[],
    engines=[dict(module='gvc.engine', args=dict(analyses=('frame', 'kwsites', 'assumed'))), REPLAY],
    shims=['A-packrat'],
    design='DESIGN.md 3/C17',
    technique='frame condition per memoised function: every thread-local it can read or write (transitively, modular fixpoint over the real call graph) must be represented in the memo key',
    level_text='For each of the ~1200 #[packrat_parser] functions the thread-locals its body can reach are computed from the real sources and must be contained in the state represented in the memo key (name, position, in_directive through HasExtraState<bool>); entries call init() first. Transparency of a bounded FIFO table for any capacity follows from that frame condition.',
    level_note='One known finding: CURRENT_VERSION is reached by almost every memoised function and is not in the key (K7; capacity-dependent input replayed through the cfg(sv_parser_verif) hook). The table implementation (nom-packrat) is outside /repo (A-packrat). Recursion flags in Span.extra are argument state, not seen by this check.',
    not_covered=['nom-packrat implementation', 'recursion flags carried in Span.extra (A-recursive)'],
)
PROPS['C08'] = dict(
    title='totality',
    units=['pt', 'wrap', 'iter', 'conv', 'derive', 'getstr', 'arms', 'depth', 'pphelp', 'display', 'prologue', 'split', 'loc', 'rtmu', 'glue', 'kwstack'],
    engines=[dict(module='gvc.engine', args=dict(analyses=('panics', 'faithful', 'nullable', 'frame', 'errors')))],
    shims=['A-btree', 'A-str', 'A-path/fs', 'A-node', 'A-vec', 'A-nom', 'A-glue'],
    design='DESIGN.md 3/C08',
    technique='Verus: absence of overflow, out-of-range indexing, failed assert/unwrap in every function under contract; File/ReadUtf8/Include mapping of the wrappers; classified inventory of all panic sites',
    level_text='Every function under a Verus contract (Range, PreprocessedText, Iter/EventIter, conversions, Locate fold, get_str*, the lifted arms, the wrappers) is proved free of arithmetic overflow, out-of-range slicing/indexing and failed assert!/unwrap under its stated precondition; preprocess_inner reports File{path}/ReadUtf8(path), the include arm wraps in Include; every other panic site of the six crates is inventoried and classified (proved by unit / discharged by a generated rule / unverified).',
    level_note='Partial: panic sites classified unverified are listed in the evidence and not proved; grammar invariants (each node has a contiguous leaf, identifier present) are preconditions discharged by gvc.faithful rules, not by Verus; stack exhaustion by nesting is outside the claim; a new unclassified panic site makes the run undecided.',
    not_covered=['RefCell borrows inside the memo code generated by nom_packrat (dependency; the 17 borrows written in the six crates are discharged by rule borrow-local)', 'the nom parsers themselves (no panics assumed in nom)', 'Display of RefNode (generated by build.rs)'],
)
PROPS['C19'] = dict(
    title='thread independence',
    units=[],
    engines=[dict(module='gvc.engine', args=dict(analyses=('shared',)))],
    shims=['A-packrat'],
    design='DESIGN.md 3/C19',
    technique='ownership/frame condition over the real sources of all six crates (no state reachable from two threads), decided by the generator. No reasoning about interleavings: with nothing shared there is nothing to interleave on',
    level_text='Every piece of state a preprocess or parse call can read or write besides its arguments and the file system is thread-local: the only statics of the six crates are the three thread_local! tables of sv-parser-parser (memo table, directive stack, keyword-version stack); there is no static mut, no static with interior mutability, no lazy/once-initialised global, no process-global mutator (env::set_var, set_current_dir), no hand-written Send/Sync, no thread creation, and the unsafe blocks are the four committed ones, which touch their arguments only. Under Rust\'s rules (thread_local! gives each thread its own instance; safe code cannot alias across threads without Sync state) calls on different threads share nothing, so each returns what it returns alone.',
    level_note='This is the frame condition that makes interleavings irrelevant, not a proof about interleavings (neither Verus without its concurrency tokens nor Kani can give one). Assumed: the thread-local implementation of std, that nom_packrat::storage! and nom-recursive keep their tables thread-local (A-packrat, dependencies outside /repo), that the file system is not changed by another thread during a call. A once-initialised global or a new unsafe block makes the check undecided, not violated.',
    not_covered=['interleavings themselves', 'state inside dependencies (nom-packrat, nom-recursive, nom-tracable)', 'concurrent modification of the files being read'],
)
KANI = dict(module='vx.kanieng', tier='thorough')
PROPS['C03']['engines'] = [KANI, dict(module='vx.boundeng'), dict(module='gvc.engine', args=dict(analyses=('faithful',)))]
PROPS['C18']['engines'] = [dict(module='gvc.engine', args=dict(analyses=('pptotal', 'assumed', 'faithful'))), REPLAY]
PROPS['C05']['engines'] = [dict(module='vx.boundeng'), dict(module='gvc.engine', args=dict(analyses=('shadow', 'kwsites', 'assumed', 'faithful')))]
PROPS['C11']['engines'] = [dict(module='gvc.engine', args=dict(analyses=('shadow', 'kwsites', 'assumed', 'faithful', 'pptotal')))]
PROPS['C10']['engines'] = [dict(module='gvc.engine', args=dict(analyses=('assumed', 'faithful', 'errors')))]
PROPS['C09']['engines'] = [dict(module='gvc.engine', args=dict(analyses=('assumed', 'errors')))]
PROPS['C04']['engines'] = [dict(module='gvc.engine', args=dict(analyses=('frame', 'assumed', 'kwsites', 'pptotal', 'faithful'))), REPLAY]
PROPS['C06']['engines'] = [dict(module='gvc.engine', args=dict(analyses=('pptotal', 'faithful', 'shadow', 'assumed'))), dict(module='vx.boundeng'), REPLAY]

# ---- premise closure -----------------------------------------------------------------------------------------------------
# Verification is modular: a unit verifies its functions against the CONTRACTS of their callees.  Those contracts are proved in
# other units.  A property whose units assume a contract is only established when the unit that proves the contract succeeds on the
# same tree.  CALLEES: unit -> units that prove contracts it assumes (callee side only; transitive closure is taken).
CALLEES = {
    'arms': ['derive', 'getstr', 'pt', 'pphelp', 'iter', 'conv', 'loc'],
    'glue': ['arms', 'derive', 'pt'],
    'rtmu': ['split', 'pphelp', 'getstr', 'derive', 'iter', 'conv'],
    'wrap': ['loc'],
    'getstr': ['iter', 'conv', 'derive'],
    'derive': ['iter', 'conv'],
    'pphelp': ['getstr', 'derive'],
    'iter': ['conv'],
    'pt': [], 'split': [], 'conv': [], 'loc': [], 'depth': [], 'prologue': [], 'kwstack': [], 'display': [],
}
# callee-side units: a refuted obligation there is a refuted CONTRACT somebody relies on
CALLEE_SIDE = {'derive', 'getstr', 'pt', 'pphelp', 'iter', 'conv', 'loc', 'split'}


def premise_units(units):
    seen, todo = [], list(units)
    while todo:
        u = todo.pop(0)
        for c in CALLEES.get(u, []):
            if c not in seen and c not in units:
                seen.append(c)
                todo.append(c)
    return seen


NOT_APPLICABLE = {
    'C02': 'the oracle is the set of Annex A sentences and their production labels; a contract able to state it would restate the 1.3k-production grammar, and PEG ordered choice over it is not a per-function property (DESIGN.md 4)',
    'C12': 'a relation between two parses of two different inputs over every production and trivia assignment (hyperproperty); per-function contracts do not compose to it without a proof about the whole PEG (DESIGN.md 4)',
    'C14': 'statements about the language accepted by the whole grammar and about nom-greedyerror deepest-failure bookkeeping, neither is a contract of a function within reach (DESIGN.md 4)',
}
