"""bounded stand-ins (labelled bounded, never counted as proved): exhaustive enumeration up to a stated bound through
the REAL code (replay crate), for clauses whose code no contract here reaches (the pp lexers of C06).
A text the reference scan says must be accepted and that the real preprocessor rejects or alters is a concrete
failing input: it is reported as a violation with that input as witness."""
import os
import re
import subprocess
import time
from . import replayeng

VERIF = os.path.dirname(os.path.dirname(os.path.abspath(__file__)))


SPEC = {
    'C06': dict(cmd='c06bound', quick=5, thorough=7, tag='C06BOUND',
                what='C06: every text over {" \\ / * LF CR SP a} up to N bytes through the real preprocess_str: a text the reference scan says must be accepted comes back Ok and unchanged (K3/K4 aside)',
                label='C06.bounded.directive-free-texts-up-to-%s-bytes'),
    'C03': dict(cmd='c03long', quick=400, thorough=20000, tag='C03LONG',
                what='C03 / assumption A-btree: a directive-free text of N tokens (about 2N segments, many node splits of std BTreeMap under Range\'s Ord) through the real preprocess_str; every output position is probed with origin() and must map to the same offset of the same file',
                label='C03.bounded.origin-of-every-position-of-a-%s-token-text', where='sv-parser-pp (PreprocessedText / Range under std BTreeMap)'),
    'C05': dict(cmd='c05bound', quick=5, thorough=7, tag='C05BOUND',
                what='C05: `M(X) for M(a,b) = <a|b> and every well-nested actual-argument text X over {a , ( ) [ ] { } "..."} up to N bytes: arguments are split at the top-level commas only',
                label='C05.bounded.actual-arguments-up-to-%s-bytes'),
}


def run(prop, tier, seed, **kw):
    t0 = time.time()
    sp = SPEC[prop]
    n = sp[tier if tier in ('quick', 'thorough') else 'quick']
    res = dict(unit='bounded', status='ok', reason='', functions=[], failures=[], verified=0, errors=0, rewrites=[], assumptions={},
               extracted=[], mustfail=[], wall_s=0.0, smt_ms=0, props=[prop], samples=[],
               backend='BOUNDED stand-in: exhaustive enumeration through the real preprocess_str (not a proof)', cmd='vreplay %s %d' % (sp['cmd'], n))
    ok, out = replayeng.build()
    if not ok:
        res['status'] = 'undecided'
        res['reason'] = 'replay crate does not build: ' + out[-300:]
        res['soft_undecided'] = [res['reason']]
        res['soft_props'] = [prop]
        return res
    p = subprocess.run([replayeng.BIN, sp['cmd'], str(n)], stdout=subprocess.PIPE, stderr=subprocess.STDOUT, timeout=3000)
    o = p.stdout.decode('utf-8', 'replace')
    m = re.search(sp['tag'] + r' n=(\d+) texts=(\d+)(?: must_accept=(\d+))? bad=(\d+)', o)
    if not m:
        res['status'] = 'undecided'
        res['reason'] = 'bounded check produced no result: ' + o[-200:]
        res['soft_undecided'] = [res['reason']]
        res['soft_props'] = [prop]
        return res
    res['samples'].append(dict(bounded_check=sp['what'].replace(' N ', ' %s ' % m.group(1)),
                               texts=int(m.group(2)), must_be_accepted=int(m.group(3) or m.group(2)), failing=int(m.group(4)), label='bounded', counted_as_proved=False))
    if int(m.group(4)) > 0:
        first = [l.strip() for l in o.split('\n')[1:] if l.strip()][:3]
        mm = re.match(r'(REJECTED|CHANGED|ARGS) ("(?:[^"\\]|\\.)*")', first[0]) if first else None
        inp = None
        if mm:
            try:
                inp = eval(mm.group(2).replace('\\r', '\\r'))
            except Exception:
                inp = None
        if inp is not None and prop == 'C05':
            inp = '`define M(a,b) <a|b>\n`M(%s)\n' % inp
        res['failures'].append(dict(fn='preprocess_str', kind='bounded enumeration through the real code found failing input(s): ' + ' ; '.join(first),
                                    label=sp['label'] % m.group(1), props=[prop], repo=sp.get('where', 'sv-parser-parser (pp lexers)'), spec='vreplay ' + sp['cmd'],
                                    snippet='', notes=[], witness=dict(source='bounded enumeration through the real code', input=inp, args=(['pp', inp] if inp is not None else [sp['cmd'], str(n)]), observed=first)))
        res['status'] = 'fail'
        res['errors'] = 1
    res['wall_s'] = time.time() - t0
    return res
