"""Kani engine (thorough tier): loop-free harnesses over kani::any() for Range (complete over the full domain,
not bounded) - the only source of automatic counterexamples.  A failing harness is reported with the concrete
values Kani prints (concrete playback)."""
import os
import re
import subprocess
import time

VERIF = os.path.dirname(os.path.dirname(os.path.abspath(__file__)))
REPO = os.environ.get('VERIF_REPO', '/repo')
LABELS = {
    'range_new_contract': ('K.range.new-contract', ['C03', 'C08']),
    'range_eq_is_overlap': ('K.range.eq-is-overlap', ['C03']),
    'range_cmp_is_overlap_or_begin_order': ('K.range.cmp-overlap-or-begin-order', ['C03']),
    'range_offset_shifts': ('K.range.offset-shifts-both-ends', ['C03']),
    'unit_probe_is_monotone_on_adjacent_keys': ('K.range.unit-probe-monotone', ['C03']),
    'appended_range_is_greater': ('K.range.appended-range-greater', ['C03']),
    'origin_arithmetic_in_range': ('K.origin.arithmetic-in-range', ['C03', 'C08']),
}


def run(prop, tier, seed, **kw):
    t0 = time.time()
    res = dict(unit='kani', status='ok', reason='', functions=[], failures=[], verified=0, errors=0, rewrites=[], assumptions={},
               extracted=[], mustfail=[], wall_s=0.0, smt_ms=0, props=['C03', 'C08'], samples=[], backend='kani 0.68 / cbmc (loop-free, full domain)',
               cmd='cargo kani -p sv-parser-pp -Z function-contracts -Z concrete-playback --concrete-playback=print')
    env = dict(os.environ, CARGO_NET_OFFLINE='true', CARGO_TARGET_DIR=os.path.join(os.environ.get('VERIF_OUT', VERIF), 'kani-target'))
    try:
        p = subprocess.run(['cargo', 'kani', '-p', 'sv-parser-pp', '-Z', 'function-contracts', '-Z', 'concrete-playback', '--concrete-playback=print'],
                           cwd=REPO, env=env, stdout=subprocess.PIPE, stderr=subprocess.STDOUT, timeout=3000)
    except subprocess.TimeoutExpired:
        res['status'] = 'undecided'
        res['reason'] = 'kani timed out'
        return res
    out = p.stdout.decode('utf-8', 'replace')
    blocks = re.split(r'Checking harness ', out)[1:]
    if not blocks:
        res['status'] = 'undecided'
        res['reason'] = 'kani produced no harness results: ' + out[-400:]
        res['wall_s'] = time.time() - t0
        return res
    seen = set()
    for b in blocks:
        name = b.split('...')[0].strip().split('::')[-1]
        seen.add(name)
        ok = 'VERIFICATION:- SUCCESSFUL' in b
        tm = re.search(r'Verification Time: ([\d.]+)s', b)
        res['functions'].append(dict(name='kani::' + name, mode='harness', ms=int(float(tm.group(1)) * 1000) if tm else None, rlimit=None, success=ok))
        if ok:
            res['verified'] += 1
            continue
        res['errors'] += 1
        lab, props = LABELS.get(name, ('K.' + name, ['C03']))
        failed = re.findall(r'Failed Checks: (.*)', b)
        m = re.search(r'Concrete playback unit test.*?```(.*?)```', b, re.S)
        witness = dict(source='kani concrete playback', failed_checks=failed[:5], playback=(m.group(1).strip()[:1500] if m else None))
        res['failures'].append(dict(fn=name, kind='kani harness failed: ' + '; '.join(failed[:3]), label=lab, props=props,
                                    repo='sv-parser-pp/src/range.rs', spec='kani harness ' + name, snippet='', notes=[], witness=witness if m else None))
    missing = set(LABELS) - seen
    if missing:
        res['status'] = 'undecided'
        res['reason'] = 'kani harnesses not found (anchor lost): ' + ', '.join(sorted(missing))
    elif res['failures']:
        res['status'] = 'fail'
    res['samples'] = [dict(harness=f['name'], result='SUCCESSFUL' if f['success'] else 'FAILED') for f in res['functions']]
    res['wall_s'] = time.time() - t0
    return res
