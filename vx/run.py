"""run - build a unit, run Verus on it, classify the outcome."""
import json
import os
import re
import subprocess
import time
from .unit import Unit, parse_label, AFTER
from .rsx import ExtractError

VERIF = os.path.dirname(os.path.dirname(os.path.abspath(__file__)))
BUILD = os.path.join(os.environ.get('VERIF_OUT', VERIF), 'build')

ASSUME_PATTERNS = [
    ('external_body', r'external_body'),
    ('assume_specification', r'assume_specification'),
    ('uninterp', r'\buninterp\b'),
    ('admit', r'\badmit\s*\('),
    ('assume', r'\bassume\s*\('),
    ('external', r'verifier::external\b'),
]


def assumed_items(text):
    """names of everything the generated file leaves unproved: external_body items, assume_specification, uninterpreted
    spec functions, axioms (mechanical scan, printed in the evidence)"""
    t = re.sub(r'//[^\n]*', '', text)
    items = []
    for m in re.finditer(r'external_body\][^;{]*?\b(fn|struct)\s+(\w+)', t, re.S):
        items.append('external_body %s %s' % (m.group(1), m.group(2)))
    for m in re.finditer(r'assume_specification[^\[]*\[\s*([^\]]+?)\s*\]', t):
        items.append('assume_specification ' + re.sub(r'\s+', ' ', m.group(1)))
    for m in re.finditer(r'uninterp\s+spec\s+fn\s+(\w+)', t):
        items.append('uninterp spec fn ' + m.group(1))
    for m in re.finditer(r'\baxiom\s+fn\s+(\w+)', t):
        items.append('axiom ' + m.group(1))
    return sorted(set(items))


def scan_assumptions(text):
    res = {}
    # strip comments
    t = re.sub(r'//[^\n]*', '', text)
    for name, pat in ASSUME_PATTERNS:
        n = len(re.findall(pat, t))
        if n:
            res[name] = n
    return res


def run_unit(path, rlimit=None, seed=None, extra_args=(), quarantine=(), inline=False):
    t0 = time.time()
    u = Unit(path, quarantine=quarantine)
    res = dict(unit=u.name, template=os.path.relpath(path, VERIF), status='undecided', reason='',
               functions=[], failures=[], verified=0, errors=0, rewrites=[], assumptions={},
               extracted=[], mustfail=[], wall_s=0.0, smt_ms=0, props=[])
    try:
        text = u.build()
    except ExtractError as e:
        text = None
        first_err = e
    # R-inline (only on retry, when the front end met a function it does not know): helper functions of the same source file
    # that the unit does not define itself are inlined at their call sites
    if inline:
        try:
            from .inline import defined_names
            known = defined_names(text) if text is not None else set()
            tdir = os.path.dirname(path)
            for fp in [path] + [os.path.join(tdir, x) for x in re.findall(r'^//@include\s+(\S+)', open(path).read(), re.M)]:
                tt = open(fp).read()
                known |= set(re.findall(r'\bfn\s+(\w+)', tt))
                known |= set(x.strip() for x in re.findall(r'^//@(?:fn|sig)\s+[^|]*\|[^|]*\|\s*([\w]+)', tt, re.M))
                known |= set(re.findall(r'//@wrap\s+fn\s+(\w+)', tt))
            u2 = Unit(path, quarantine=quarantine, known_fns=known)
            text2 = u2.build()
            if u2.inlined:
                u, text = u2, text2
        except ExtractError as e:
            pass
    if text is None:
        res['reason'] = 'extraction: %s' % first_err
        res['wall_s'] = time.time() - t0
        res['props'] = u.props
        return res
    res['props'] = u.props
    os.makedirs(BUILD, exist_ok=True)
    out = os.path.join(BUILD, u.name + '.rs')
    with open(out, 'w') as f:
        f.write(text)
    res['built'] = out
    res['rewrites'] = [dict(rule=r, where=w, count=c) for r, w, c in u.rewrites]
    if getattr(u, 'inlined', None):
        res['inlined'] = list(u.inlined)
    res['assumptions'] = scan_assumptions(text)
    res['assumed_items'] = assumed_items(text)
    res['extracted'] = [dict(fn=f['qual'], file=f['file'], line=f['line'], props=f['props'], clauses=f['clauses'], deflabel=f.get('deflabel')) for f in u.functions]
    cmd = ['verus', out, '--output-json', '--time', '--error-format=json', '--multiple-errors', '20',
           '--triggers-mode', 'silent', '--crate-name', 'u_' + u.name]
    if rlimit:
        cmd += ['--rlimit', str(rlimit)]
    if seed is not None:
        cmd += ['-V', 'smt-seed=%d' % seed] if False else []
    cmd += list(extra_args)
    res['cmd'] = ' '.join(cmd)
    env = dict(os.environ)
    try:
        p = subprocess.run(cmd, stdout=subprocess.PIPE, stderr=subprocess.PIPE, cwd=BUILD, env=env, timeout=1500)
    except subprocess.TimeoutExpired:
        res['reason'] = 'verus timeout'
        res['wall_s'] = time.time() - t0
        return res
    stdout = p.stdout.decode('utf-8', 'replace')
    stderr = p.stderr.decode('utf-8', 'replace')
    try:
        js = json.loads(stdout) if stdout.strip() else None
    except ValueError:
        js = None
    diags = []
    raw = []
    for l in stderr.split('\n'):
        l = l.strip()
        if not l:
            continue
        try:
            d = json.loads(l)
            if isinstance(d, dict) and 'message' in d:
                diags.append(d)
            else:
                raw.append(l)
        except ValueError:
            raw.append(l)
    res['wall_s'] = time.time() - t0
    crate = 'u_' + u.name
    def _retry_quarantined(errs_):
        # front-end errors confined to the bodies of extracted functions: verify the rest of the unit with those
        # functions reduced to their contract (they are reported undecided), instead of losing the whole unit
        names = set()
        for d in errs_:
            prim_ = [s for s in d.get('spans', []) if s.get('is_primary')] or d.get('spans', [])
            if not prim_:
                return None
            l = _origin(u, prim_[0]['line_start'], prim_[0])
            if l is None or not l.fn or l.fn in ('arm', 'slice', 'macro', 'quote') or l.origin[0] == 'tmpl':
                return None
            names.add(l.fn)
        names -= set(quarantine)
        if not inline and any(re.search(r'cannot find function|no method named|no function or associated item named|no associated function|cannot find value|not found in', d['message']) for d in errs_):
            # a function the unit does not know: first try with the helpers of the same file inlined (R-inline)
            r_in = run_unit(path, rlimit, seed, extra_args, quarantine=quarantine, inline=True)
            if r_in.get('inlined'):
                return r_in
        if not names or len(quarantine) + len(names) > 4:
            return None
        return run_unit(path, rlimit, seed, extra_args, quarantine=tuple(sorted(set(quarantine) | names)), inline=inline)

    if js is None:
        fe = [d for d in diags if d.get('level') == 'error' and not d['message'].startswith('aborting due to')]
        r2 = _retry_quarantined(fe) if fe else None
        if r2 is not None:
            return r2
        res['reason'] = 'verus produced no JSON (front-end failure): ' + ' | '.join(
            [d['message'] for d in diags if d.get('level') == 'error'][:5] + raw[:3])
        return res
    vr = js.get('verification-results', {})
    # per function results
    try:
        for mod in js['times-ms']['smt']['smt-run-module-times']:
            for fb in mod.get('function-breakdown', []):
                res['functions'].append(dict(name=fb['function'].replace(crate + '::', ''), mode=fb.get('mode:', fb.get('mode')),
                                             ms=fb['time'], rlimit=fb['rlimit'], success=fb['success']))
        res['smt_ms'] = js['times-ms']['smt']['total']
    except (KeyError, TypeError):
        pass
    res['verified'] = vr.get('verified', 0)
    res['errors'] = vr.get('errors', 0)
    errs = [d for d in diags if d.get('level') == 'error' and not d['message'].startswith('aborting due to')]
    if vr.get('encountered-vir-error') or (vr.get('encountered-error') and not res['functions'] and not vr.get('verified')):
        r2 = _retry_quarantined(errs) if errs else None
        if r2 is not None:
            return r2
        res['reason'] = 'verus front-end error: ' + ' | '.join(_fmt(d, u) for d in errs[:5])
        return res
    # classify verification errors
    VERIF_MSGS = ('postcondition not satisfied', 'precondition not satisfied', 'assertion failed',
                  'invariant not satisfied', 'possible arithmetic underflow/overflow', 'possible division by zero',
                  'decreases not satisfied', 'could not prove termination', 'recommendation not met',
                  'loop invariant', 'possible bit shift', 'unreachable', 'might not be allowed', 'index out of bounds',
                  'failed', 'cannot show', 'not satisfied')
    failures = []
    undecided = []
    for d in errs:
        msg = d['message']
        if 'rlimit' in msg.lower() or 'resource limit' in msg.lower() or 'timed out' in msg.lower():
            undecided.append(_fmt(d, u))
            continue
        prim = [s for s in d.get('spans', []) if s.get('is_primary')] or d.get('spans', [])
        if not prim:
            undecided.append('unlocated error: ' + msg)
            continue
        fl = _failure(d, u)
        if fl.get('label') is None:
            # the function's contract lives in a trait-level spec: `//@fn .. | label=NAME PROPS` names its obligation
            for f_ in u.functions:
                if f_['name'] == fl['fn'] and f_.get('deflabel') and f_['deflabel'][0]:
                    fl['label'], fl['props'] = f_['deflabel'][0], (f_['deflabel'][1] or fl.get('props'))
                    break
        if not any(k in msg for k in VERIF_MSGS):
            undecided.append(_fmt(d, u))
            continue
        failures.append(fl)
    # vacuity guards
    mf_ok = []
    real = []
    for fl in failures:
        if fl['fn'] in u.mustfail:
            mf_ok.append(fl['fn'])
        else:
            real.append(fl)
    for name in u.mustfail:
        res['mustfail'].append(dict(fn=name, failed_as_required=name in mf_ok))
    missing = [n for n in u.mustfail if n not in mf_ok]
    # lost anchors (an annotated loop / proof position that is no longer there):
    #  - the function verifies without the annotation -> nothing is undecided
    #  - it fails, a loop annotation was lost, and neither a loop nor a closure (iterator adapter) is left in it -> straight-line
    #    code needs no invariant: the failure stands
    #  - otherwise the failure may be the missing annotation's fault -> undecided, never an alarm
    lost = [x for x in u.soft_undecided if x.get('anchor')]
    if lost:
        keep_soft = [x for x in u.soft_undecided if not x.get('anchor')]
        for fnname in sorted(set(x['fn'] for x in lost)):
            mine = [x for x in lost if x['fn'] == fnname]
            fails = [fl for fl in real if fl['fn'] == fnname]
            if not fails:
                res.setdefault('anchors_not_needed', []).extend(x['msg'] for x in mine)
            elif all(x['loops_left'] == 0 for x in mine) and any(x['anchor'] == 'loop' for x in mine) and not any(x.get('closures') for x in mine):
                # the annotations were written for a loop that is gone altogether: what is left is straight-line code
                res.setdefault('anchors_not_needed', []).extend(x['msg'] for x in mine)
            else:
                real = [fl for fl in real if fl['fn'] != fnname]
                keep_soft.extend(mine)
                res.setdefault('suppressed_after_lost_anchor', []).extend(fl['label'] or fl['kind'] for fl in fails)
        u.soft_undecided = keep_soft
    # proof hints (assertions the templates insert to guide the solver) are not obligations of a property: a hint that
    # fails next to a real failure of the same function is dropped; a hint that fails alone leaves the function's proof
    # incomplete (everything after it was verified under the failed assertion's assumption): undecided, never an alarm
    hints = [fl for fl in real if fl.get('label') == 'proof']
    if hints:
        for fnname in sorted(set(fl['fn'] for fl in hints)):
            others = [fl for fl in real if fl['fn'] == fnname and fl.get('label') != 'proof']
            if not others:
                undecided.append('a proof hint of the template no longer holds in %s: its obligations are not decided' % fnname)
        real = [fl for fl in real if fl.get('label') != 'proof']
    # residual clauses: reported only when none of the clauses they are the remainder of failed
    failed_labels = set(fl['label'] for fl in real if fl['label'])
    kept = []
    for fl in real:
        sub = [a for a in AFTER.get(fl['label'], []) if a in failed_labels and a != fl['label']]
        if sub:
            res.setdefault('subsumed', []).append(dict(label=fl['label'], by=sub))
        else:
            kept.append(fl)
    real = kept
    res['failures'] = real
    # functions that verus says failed but for which no diagnostic was mapped
    if real:
        res['status'] = 'fail'
        if undecided:
            res['reason'] = 'additionally undecided: ' + ' | '.join(undecided[:5])
    elif undecided:
        res['status'] = 'undecided'
        res['reason'] = 'verifier gave up / non-verification error: ' + ' | '.join(undecided[:5])
    elif missing:
        res['status'] = 'undecided'
        res['reason'] = 'vacuity guard(s) verified, i.e. a precondition is contradictory: ' + ', '.join(missing)
    elif vr.get('success') or (res['errors'] == len(set(mf_ok)) and not real):
        res['status'] = 'ok'
    else:
        res['status'] = 'undecided'
        res['reason'] = 'verus reported errors that could not be classified: ' + ' | '.join(raw[:5])
    res['soft_undecided'] = [x['msg'] for x in u.soft_undecided] + list(undecided)
    # which properties the indecision concerns: None = the whole unit
    if undecided or any(x['props'] is None for x in u.soft_undecided):
        res['soft_props'] = None
    else:
        res['soft_props'] = sorted(set(p_ for x in u.soft_undecided for p_ in x['props']))
    soft_msgs = [x['msg'] for x in u.soft_undecided]
    if res['status'] == 'ok' and u.soft_undecided:
        res['status'] = 'undecided'
        res['reason'] = ' | '.join(soft_msgs)
    elif u.soft_undecided:
        res['reason'] = (res['reason'] + ' | ' if res['reason'] else '') + ' | '.join(soft_msgs)
    # discount mustfail fns from the error count
    res['errors'] = max(0, res['errors'] - len(set(mf_ok)))
    return res


def _origin(u, line, span=None):
    if span is not None and not span.get('file_name', '').endswith(u.name + '.rs'):
        return None
    if 1 <= line <= len(u.lines):
        return u.lines[line - 1]
    return None


def _fmt(d, u):
    prim = [s for s in d.get('spans', []) if s.get('is_primary')] or d.get('spans', [])
    loc = ''
    if prim:
        l = _origin(u, prim[0]['line_start'], prim[0])
        if l:
            loc = ' @ ' + _org_str(l.origin)
    return d['message'] + loc


def _org_str(o):
    if o[0] == 'repo':
        return '%s:%d' % (o[1], o[2])
    if o[0] == 'spec':
        return 'contract %s:%d [%s]' % (o[1], o[2], o[4])
    return 'template %s:%d' % (o[1], o[2])


def _enclosing_fn(u, line):
    for k in range(min(line, len(u.lines)) - 1, -1, -1):
        l = u.lines[k]
        if l.fn and l.fn not in ('arm', 'slice', 'macro'):
            return l.fn
        m = re.match(r'\s*(?:pub(?:\([a-z]+\))?\s+)?(?:open\s+|closed\s+)?(?:proof\s+|exec\s+|spec\s+|broadcast\s+)*fn\s+(\w+)', l.text)
        if m:
            return m.group(1)
    return '?'


def _failure(d, u):
    spans = d.get('spans', [])
    prim = [s for s in spans if s.get('is_primary')] or spans
    label = None
    props = None
    where_repo = None
    where_spec = None
    own = [s for s in spans if s.get('file_name', '').endswith(u.name + '.rs')]
    fn = _enclosing_fn(u, (own or prim)[0]['line_start'])
    for s in sorted(spans, key=lambda s: not s.get('is_primary')):
        l = _origin(u, s['line_start'], s)
        if not l:
            continue
        if l.origin[0] == 'spec' and where_spec is None:
            where_spec = _org_str(l.origin)
            label = l.origin[4]
            props = l.origin[5]
            if label is None:
                # a clause spanning several lines carries its label on one of them
                for k2 in range(s['line_start'], min(s.get('line_end', s['line_start']), len(u.lines)) + 1):
                    lo2 = u.lines[k2 - 1]
                    if lo2.origin[0] == 'spec' and lo2.origin[4]:
                        label = lo2.origin[4]
                        props = lo2.origin[5]
                        break
            if label is None:
                # nearest labelled clause above within the same spec block
                k = s['line_start'] - 1
                while k >= 1:
                    lo = u.lines[k - 1]
                    if lo.origin[0] != 'spec':
                        break
                    if lo.origin[4]:
                        label = lo.origin[4]
                        props = lo.origin[5]
                        break
                    k -= 1
        elif l.origin[0] == 'repo' and where_repo is None:
            where_repo = _org_str(l.origin)
        elif l.origin[0] == 'tmpl' and where_spec is None:
            where_spec = _org_str(l.origin)
            lb_, pr_ = parse_label(l.text)
            if lb_:
                label = lb_
                props = pr_
    # the function whose obligation this is: prefer the fn containing the secondary
    # "at the end of the function body"/call-site span in repo text
    for s in spans:
        l = _origin(u, s['line_start'], s)
        if l and l.fn and l.fn not in ('arm', 'slice', 'macro'):
            fn = l.fn
            break
    if label is None:
        # the generated line itself may carry a `//: label props` comment (loop invariants)
        for s in sorted(spans, key=lambda s: not s.get('is_primary')):
            if s.get('file_name', '').endswith(u.name + '.rs') and 1 <= s['line_start'] <= len(u.lines):
                # a clause spanning several lines carries its label on one of them (usually the last)
                for k2 in range(s['line_start'], min(s.get('line_end', s['line_start']), len(u.lines)) + 1):
                    lb_, pr_ = parse_label(u.lines[k2 - 1].text)
                    if lb_:
                        label = lb_
                        props = pr_ if pr_ else props
                        break
                if label:
                    break
    if label is None:
        # a trait-level postcondition (`ensures r.nview() == Self::from_view(x)`): the obligation is
        # named by the labelled spec fn the template put at the head of the same impl block
        for s in spans:
            l = _origin(u, s['line_start'], s)
            if l and l.origin[0] == 'repo':
                k = s['line_start'] - 1
                lo = max(0, k - 80)
                while k >= lo:
                    t = u.lines[k].text
                    lb_, pr_ = parse_label(t)
                    if lb_ and u.lines[k].origin[0] == 'tmpl':
                        label = lb_
                        props = pr_
                        break
                    if re.match(r'\s*}\s*$', t) and u.lines[k].origin[0] == 'tmpl':
                        break
                    k -= 1
                break
    kind = d['message']
    snippet = ''
    ps = prim[0]
    if ps.get('text'):
        snippet = ' '.join(t.get('text', '').strip() for t in ps['text'])[:200]
    return dict(fn=fn, kind=kind, label=label, props=props, repo=where_repo, spec=where_spec, snippet=snippet,
                notes=[s.get('label') for s in spans if s.get('label')])
