"""replay engine: re-demonstrates listed known findings on the real code (replay crate, hooks on).
It never decides anything about the property; it only tells whether a recorded failing input still fails."""
import json
import os
import re
import subprocess
import time

VERIF = os.path.dirname(os.path.dirname(os.path.abspath(__file__)))
RDIR = os.path.join(VERIF, 'replay')
BIN = os.path.join(RDIR, 'target', 'debug', 'vreplay')


def build():
    """build the replay crate against the tree under check; for a scratch tree (VERIF_REPO) a copy of the crate with
    re-pointed path dependencies is built under VERIF_OUT"""
    global BIN
    repo = os.environ.get('VERIF_REPO', '/repo')
    rdir = RDIR
    if repo != '/repo':
        import shutil
        out = os.environ.get('VERIF_OUT', VERIF)
        rdir = os.path.join(out, 'replay')
        os.makedirs(os.path.join(rdir, 'src'), exist_ok=True)
        shutil.copy(os.path.join(RDIR, 'src', 'main.rs'), os.path.join(rdir, 'src', 'main.rs'))
        shutil.copy(os.path.join(RDIR, 'Cargo.lock'), os.path.join(rdir, 'Cargo.lock'))
        open(os.path.join(rdir, 'Cargo.toml'), 'w').write(open(os.path.join(RDIR, 'Cargo.toml')).read().replace('"/repo/', '"%s/' % repo))
    BIN = os.path.join(rdir, 'target', 'debug', 'vreplay')
    env = dict(os.environ, RUSTFLAGS='--cfg sv_parser_verif', CARGO_TARGET_DIR=os.path.join(rdir, 'target'), CARGO_NET_OFFLINE='true')
    p = subprocess.run(['cargo', 'build', '--offline'], cwd=rdir, env=env, stdout=subprocess.PIPE, stderr=subprocess.STDOUT)
    return p.returncode == 0, p.stdout.decode()[-2000:]


def run(prop, tier, seed, **kw):
    t0 = time.time()
    res = dict(unit='replay', status='ok', reason='', functions=[], failures=[], verified=0, errors=0, rewrites=[], assumptions={},
               extracted=[], mustfail=[], wall_s=0.0, smt_ms=0, props=[], samples=[], backend='replay of recorded inputs on the real code (no verdict)', cmd='cargo build --offline (replay crate); vreplay ...',
               known_replayed=[])
    kf = json.load(open(os.path.join(VERIF, 'known_findings.json')))
    mine = [k for k in kf.get('findings', []) if k['property'] == prop and k.get('replay')]
    if not mine:
        return res
    ok, out = build()
    if not ok:
        res['status'] = 'undecided'
        res['reason'] = 'replay crate does not build: ' + out[-300:]
        return res
    for k in mine:
        outs = []
        still = True
        for step in k['replay']:
            p = subprocess.run([BIN] + step['args'], stdout=subprocess.PIPE, stderr=subprocess.STDOUT, timeout=300)
            o = p.stdout.decode()
            outs.append(o.strip()[:200])
            if not re.search(step['expect'], o):
                still = False
        res['samples'].append(dict(finding=k['id'], still_reproduces=still, outputs=outs))
        if still:
            res['known_replayed'].append(dict(obligation=k.get('obligation') or k['id'], what=k['what'] + ' [re-demonstrated on this tree]'))
    res['wall_s'] = time.time() - t0
    return res
