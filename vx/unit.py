"""unit - assemble a single-file Verus crate from a unit template (`units/*.vx`).

A template is Verus source text (shims, spec functions, lemmas: everything that is NOT
executable code of /repo) with directives that splice in text extracted from the current
/repo working tree:

  //@unit NAME props=C03,C08 [rules=conv]
  //@include other.vx
  //@fn FILE | CONTAINER-HEADER or - | NAME [| props=..]     real fn, contracts spliced
  //@   ret r                 name the return value   (-> T  becomes  -> (r: T))
  //@   sub /REGEX/ => TEXT [xN]   logged textual rewrite, must apply exactly N times (default 1)
  //@   spec                  following raw lines = requires/ensures/decreases header
  //@   loop K                following raw lines = invariant/decreases of the K-th loop
  //@   proof start           following raw lines inserted at the start of the body
  //@   proof before /REGEX/  following raw lines inserted before the line matching REGEX
  //@   closure K             following raw lines replace `|params|` of the K-th closure
  //@end
  //@item FILE | KIND NAME        struct/enum/const/type/macro_rules item verbatim (+ sub lines, //@end)
  //@implhdr FILE | HEADER        the real impl header up to '{' (rules applied)
  //@arm FILE | FN-CONTAINER | FN | PATTERN [#K]     inner statements of a match arm
  //@guard FILE | FN-CONTAINER | FN | PATTERN [#K]   the arm's guard expression, or `true`
  //@slice FILE | FN-CONTAINER | FN | /FROM/ | /TO/  whole lines from the first line matching
  //@                                                FROM up to (excluding) the next line matching TO
  //@macroarm FILE | NAME | K      transcriber text of the K-th arm of macro_rules! NAME
  //@mustfail                  the next fn is a vacuity guard: it must FAIL to verify

A trailing `//: label [props]` comment on a spec line names the obligation.
Every output line remembers where it came from (template line, repo file:line or spec
label), which is how verifier diagnostics are mapped back to named obligations.
"""
import os
import re
from .rsx import Source, ExtractError, norm, match_close

REPO = os.environ.get('VERIF_REPO', '/repo')

# R-conv: std conversion traits cannot be shadowed inside a Verus file (vstd attaches
# trait-level contracts to them); the extracted text is renamed to same-shaped shim traits.
RULES = {
    'conv': [
        (r'\.try_into\(\)', '.vtry_into()'),
        (r'\.into\(\)', '.vinto()'),
        (r'\bTryFrom<', 'VTryFrom<'),
        (r'\bTryInto<', 'VTryInto<'),
        (r'\bFrom<', 'VFrom<'),
        (r'\bInto<', 'VInto<'),
        (r'\bfn from\(', 'fn vfrom('),
        (r'\bfn try_from\(', 'fn vtry_from('),
        (r'\bfn into\(', 'fn vinto('),
    ],
}


class Line:
    __slots__ = ('text', 'origin', 'fn')

    def __init__(self, text, origin, fn=None):
        self.text = text
        self.origin = origin
        self.fn = fn


class Unit:
    def __init__(self, path):
        self.path = path
        self.name = os.path.splitext(os.path.basename(path))[0]
        self.props = []
        self.rules = []
        self.lines = []
        self.sources = {}
        self.rewrites = []      # log of (rule, file:line, count)
        self.functions = []     # extracted functions: dict(name, file, line, props, clauses)
        self.mustfail = []      # names of vacuity-guard fns
        self.dropped = []
        self._pending_mustfail = False

    # ---------------------------------------------------------------------
    def src(self, rel):
        if rel not in self.sources:
            p = os.path.join(REPO, rel)
            if not os.path.exists(p):
                raise ExtractError('missing source file %s' % rel)
            self.sources[rel] = Source(rel, open(p, encoding='utf-8').read())
        return self.sources[rel]

    def emit(self, text, origin, fn=None):
        for l in text.split('\n'):
            self.lines.append(Line(l, origin, fn))

    def emit_repo(self, s, a, b, text=None, fn=None):
        """emit s.text[a:b] (or its rewritten form `text`) line by line with repo origins"""
        raw = s.text[a:b] if text is None else text
        ln = s.line_of(a)
        for i, l in enumerate(raw.split('\n')):
            self.lines.append(Line(l, ('repo', s.path, ln + i), fn))

    def apply_rules(self, text, where):
        for r in self.rules:
            for pat, rep in RULES[r]:
                text, n = re.subn(pat, rep, text)
                if n:
                    self.rewrites.append(('R-%s %s -> %s' % (r, pat, rep), where, n))
        return text

    def apply_subs(self, text, subs, where):
        for pat, rep, cnt in subs:
            found = len(re.findall(pat, text))
            if found != cnt:
                raise ExtractError('%s: rewrite /%s/ matches %d times, expected %d' % (where, pat, found, cnt))
            text = re.sub(pat, lambda m: m.expand(rep), text)
            self.rewrites.append(('sub /%s/ -> %s' % (pat, rep), where, cnt))
        return text

    # ---------------------------------------------------------------------
    def build(self):
        self._process(self.path)
        return '\n'.join(l.text for l in self.lines) + '\n'

    def _process(self, path):
        tl = open(path, encoding='utf-8').read().split('\n')
        i = 0
        base = os.path.basename(path)
        while i < len(tl):
            line = tl[i]
            st = line.strip()
            if not st.startswith('//@'):
                self.emit(line, ('tmpl', base, i + 1))
                if self._pending_mustfail:
                    m = re.search(r'\bfn\s+(\w+)', line)
                    if m:
                        self.mustfail.append(m.group(1))
                        self._pending_mustfail = False
                i += 1
                continue
            d = st[3:].strip()
            kw = d.split(None, 1)[0] if d else ''
            rest = d[len(kw):].strip()
            if kw == 'unit':
                parts = rest.split()
                for p in parts[1:]:
                    if p.startswith('props='):
                        self.props = p[6:].split(',')
                    elif p.startswith('rules='):
                        self.rules = p[6:].split(',')
                i += 1
            elif kw == 'include':
                self._process(os.path.join(os.path.dirname(path), rest))
                i += 1
            elif kw == 'mustfail':
                self._pending_mustfail = True
                i += 1
            elif kw in ('fn', 'item', 'implhdr', 'arm', 'guard', 'slice', 'macroarm'):
                # collect block up to //@end (implhdr/guard are one-liners without block)
                block = []
                j = i + 1
                if kw not in ('implhdr',):
                    while j < len(tl) and tl[j].strip() != '//@end':
                        block.append((j + 1, tl[j]))
                        j += 1
                    if j >= len(tl):
                        raise ExtractError('%s:%d: missing //@end' % (base, i + 1))
                    j += 1
                getattr(self, '_d_' + kw)(rest, block, base, i + 1)
                i = j
            else:
                raise ExtractError('%s:%d: unknown directive %s' % (base, i + 1, kw))

    # ---------------------------------------------------------------------
    @staticmethod
    def _sections(block):
        """split a directive block into sections keyed by their //@ header"""
        secs = []
        cur = None
        for ln, l in block:
            st = l.strip()
            if st.startswith('//@'):
                cur = [st[3:].strip(), []]
                secs.append(cur)
            else:
                if cur is None:
                    if st:
                        raise ExtractError('line %d: text outside a section' % ln)
                    continue
                cur[1].append((ln, l))
        return secs

    @staticmethod
    def _parse_sub(h):
        m = re.match(r'sub\s+/(.*)/\s*=>\s*(.*?)(?:\s+x(\d+))?\s*$', h)
        if not m:
            raise ExtractError('bad sub directive: %s' % h)
        rep = m.group(2)
        if rep == '""':
            rep = ''
        return (m.group(1), rep, int(m.group(3) or 1))

    def _locate_fn(self, file, container, name):
        s = self.src(file)
        lo, hi = 0, len(s.text)
        if container not in ('-', ''):
            for c in container.split('>>'):
                _, o, cl = s.find_container(c.strip(), lo, hi)
                lo, hi = o + 1, cl
        f = s.find_fn(name, lo, hi)
        return s, f

    def _d_fn(self, rest, block, base, tline):
        parts = [p.strip() for p in rest.split('|')]
        file, container, name = parts[0], parts[1], parts[2]
        props = self.props
        for p in parts[3:]:
            if p.startswith('props='):
                props = p[6:].split(',')
        s, f = self._locate_fn(file, container, name)
        where = '%s:%d' % (file, s.line_of(f['kw']))
        secs = self._sections(block)
        ret = None
        subs = []
        spec = []
        loops = {}
        proofs = []
        closures = {}
        forloops = {}
        for h, body in secs:
            if h.startswith('ret '):
                ret = h[4:].strip()
            elif h.startswith('sub '):
                subs.append(self._parse_sub(h))
            elif h == 'spec':
                spec = body
            elif h.startswith('loop '):
                loops[int(h[5:])] = body
            elif h.startswith('forloop '):
                forloops[int(h[8:])] = body
            elif h.startswith('proof '):
                proofs.append((h[6:].strip(), body))
            elif h.startswith('closure '):
                closures[int(h[8:])] = body
            else:
                raise ExtractError('%s:%d: unknown section %s' % (base, tline, h))
        qual = (container + '::' if container not in ('-', '') else '') + name
        finfo = dict(name=name, qual=qual, file=file, line=s.line_of(f['kw']), props=props, clauses=[])
        self.functions.append(finfo)
        fnkey = name

        # ---- signature
        sig = s.text[f['start']:f['open']]
        sig = self.apply_rules(sig, where)
        if ret:
            # last top-level `->` of the signature
            k = sig.rfind('->')
            if k < 0:
                raise ExtractError('%s: ret given but fn %s has no return type' % (where, name))
            wm = re.search(r'\bwhere\b', sig[k:])
            ty_end = k + wm.start() if wm else len(sig)
            ty = sig[k + 2:ty_end].strip()
            sig = sig[:k] + '-> (%s: %s)' % (ret, ty) + ('\n' + sig[ty_end:] if wm else '\n')
            self.rewrites.append(('R-ret name return value %s' % ret, where, 1))
        body = s.text[f['open']:f['close'] + 1]
        # ---- insertions into the body are computed on offsets relative to body start
        ins = []   # (offset_in_body, kind, payload_lines)
        b0 = f['open']
        lps = s.loops_in(f['open'] + 1, f['close'])
        for k, lines in loops.items():
            if k >= len(lps):
                raise ExtractError('%s: fn %s has %d loops, contract refers to loop %d' % (where, name, len(lps), k))
            ins.append((lps[k]['open'] - b0, 'loop%d' % k, lines))
        for k in range(len(lps)):
            if k not in loops and lps[k]['kind'] in ('for', 'while', 'loop'):
                # a loop without invariant is legal for Verus only in trivial cases; leave as is
                pass
        cls = s.closures_in(f['open'] + 1, f['close'])
        repl = []  # (start, end, text)
        # R-for: the language's own desugaring of `for PAT in EXPR { B }`, giving Verus a
        # place for the invariant when EXPR is a shim iterator
        for k, lines in forloops.items():
            if k >= len(lps) or lps[k]['kind'] != 'for':
                raise ExtractError('%s: fn %s: loop %d is not a for loop' % (where, name, k))
            lp = lps[k]
            hdr = s.text[lp['kw'] + 3:lp['open']]
            hm = s.masked[lp['kw'] + 3:lp['open']]
            mi = re.search(r'\bin\b', hm)
            pat, expr = hdr[:mi.start()].strip(), hdr[mi.end():].strip()
            new = 'let mut vx_it%d = (%s).into_iter();\nloop\n%s\n{ match vx_it%d.next() { None => { break; } Some(%s) => {' % (
                k, expr, '\n'.join(l for _, l in lines), k, pat)
            repl.append((lp['kw'] - b0, lp['open'] + 1 - b0, new))
            repl.append((lp['close'] - b0, lp['close'] - b0, ' } } '))
            self.rewrites.append(('R-for desugar for-loop %d over %s' % (k, expr), where, 1))
        for k, lines in closures.items():
            if k >= len(cls):
                raise ExtractError('%s: fn %s has %d closures, contract refers to closure %d' % (where, name, len(cls), k))
            repl.append((cls[k]['start'] - b0, cls[k]['params_end'] - b0, '\n'.join(l for _, l in lines)))
            self.rewrites.append(('R-closure annotate closure %d' % k, where, 1))
        for pos, lines in proofs:
            if pos == 'start':
                ins.append((1, 'proof', lines))
            else:
                m = re.match(r'before\s+/(.*)/\s*(?:#(\d+))?$', pos)
                if not m:
                    raise ExtractError('%s:%d: bad proof position %s' % (base, tline, pos))
                hits = [mm for mm in re.finditer(m.group(1), body)]
                want = int(m.group(2) or 0)
                if len(hits) <= want:
                    raise ExtractError('%s: proof anchor /%s/ not found in fn %s' % (where, m.group(1), name))
                off = body.rfind('\n', 0, hits[want].start()) + 1
                ins.append((off, 'proof', lines))
        # ---- emit
        self.emit_repo(s, f['start'], f['open'], text=sig.rstrip('\n'), fn=fnkey)
        for ln, l in spec:
            lab = re.search(r'//:\s*(\S+)(?:\s+(\S+))?\s*$', l)
            org = ('spec', base, ln, name, lab.group(1) if lab else None,
                   lab.group(2).split(',') if lab and lab.group(2) else props)
            self.lines.append(Line(l, org, fnkey))
            if lab:
                finfo['clauses'].append(lab.group(1))
        # body with insertions: walk through body text
        events = sorted([(o, 0, k, l) for o, k, l in ins] + [(a, 1, b, t) for a, b, t in repl], key=lambda e: (e[0], e[1]))
        cur = 0
        pieces = []  # (kind, text or lines, src_offset)
        for e in events:
            if e[1] == 0:
                o, _, kind, lines = e
                pieces.append(('src', body[cur:o], cur))
                pieces.append(('ins', (kind, lines), o))
                cur = o
            else:
                a, _, b, t = e
                pieces.append(('src', body[cur:a], cur))
                pieces.append(('rep', t, a))
                cur = b
        pieces.append(('src', body[cur:], cur))
        # apply rules and subs on src pieces jointly: simplest is to render to text with
        # markers, rewrite, then split; markers are unique tokens on their own
        rendered = ''
        marks = {}
        for idx, (k, payload, off) in enumerate(pieces):
            if k == 'src':
                rendered += payload
            else:
                mk = '/*@@%d@@*/' % idx
                marks[mk] = (k, payload)
                rendered += mk
        rendered = self.apply_rules(rendered, where)
        rendered = self.apply_subs(rendered, subs, where)
        # emit line by line; repo line numbers are approximate after insertions of text on
        # the same line, exact otherwise
        ln = s.line_of(f['open'])
        buf = ''
        pos = 0
        for m in re.finditer(r'/\*@@(\d+)@@\*/', rendered):
            chunk = rendered[pos:m.start()]
            for i, l in enumerate(chunk.split('\n')):
                if i > 0:
                    self.lines.append(Line(buf, ('repo', s.path, ln), fnkey))
                    buf = ''
                    ln += 1
                buf += l
            k, payload = marks[m.group(0)]
            if k == 'ins':
                kind, lines = payload
                self.lines.append(Line(buf, ('repo', s.path, ln), fnkey))
                buf = ''
                for tl_, l in lines:
                    lab = re.search(r'//:\s*(\S+)(?:\s+(\S+))?\s*$', l)
                    self.lines.append(Line(l, ('spec', base, tl_, name, (lab.group(1) if lab else kind),
                                               lab.group(2).split(',') if lab and lab.group(2) else props), fnkey))
            else:
                # replacement text may span several lines; they all map to the current repo line
                parts_ = payload.split('\n')
                for i, l in enumerate(parts_):
                    if i > 0:
                        self.lines.append(Line(buf, ('repo', s.path, ln), fnkey))
                        buf = ''
                    buf += l
            pos = m.end()
        chunk = rendered[pos:]
        for i, l in enumerate(chunk.split('\n')):
            if i > 0:
                self.lines.append(Line(buf, ('repo', s.path, ln), fnkey))
                buf = ''
                ln += 1
            buf += l
        self.lines.append(Line(buf, ('repo', s.path, ln), fnkey))

    # ---------------------------------------------------------------------
    def _simple_subs(self, block):
        subs = []
        for h, body in self._sections(block):
            if h.startswith('sub '):
                subs.append(self._parse_sub(h))
            else:
                raise ExtractError('unknown section %s' % h)
        return subs

    def _d_item(self, rest, block, base, tline):
        file, what = [p.strip() for p in rest.split('|')[:2]]
        kind, name = what.split()
        s = self.src(file)
        a, b = s.find_item(kind, name)
        where = '%s:%d' % (file, s.line_of(a))
        text = self.apply_subs(self.apply_rules(s.text[a:b], where), self._simple_subs(block), where)
        self.emit_repo(s, a, b, text=text)

    def _d_implhdr(self, rest, block, base, tline):
        file, header = [p.strip() for p in rest.split('|', 1)]
        s = self.src(file)
        a, o, c = s.find_container(header)
        where = '%s:%d' % (file, s.line_of(a))
        text = self.apply_rules(s.text[a:o + 1], where)
        self.emit_repo(s, a, o + 1, text=text)

    def _find_arm(self, rest):
        parts = [p.strip() for p in rest.split('|')]
        file, container, fn, pat = parts[0], parts[1], parts[2], parts[3]
        k = 0
        m = re.match(r'(.*?)\s*#(\d+)$', pat)
        if m:
            pat, k = m.group(1), int(m.group(2))
        s, f = self._locate_fn(file, container, fn)
        arms = [a for a in s.arms_in(f['open'] + 1, f['close']) if norm(a['pat']) == norm(pat)]
        if len(arms) <= k:
            raise ExtractError('%s: arm %r #%d not found in fn %s (found %d)' % (file, pat, k, fn, len(arms)))
        return s, f, arms[k]

    def _d_arm(self, rest, block, base, tline):
        s, f, arm = self._find_arm(rest)
        a, b = arm['body']
        where = '%s:%d' % (s.path, s.line_of(a))
        text = self.apply_subs(self.apply_rules(s.text[a:b], where), self._simple_subs(block), where)
        if not arm['braced']:
            text = text + ';'
        self.rewrites.append(('R-arm lift match arm %s' % norm(arm['pat'])[:60], where, 1))
        self.emit_repo(s, a, b, text=text, fn='arm')

    def _d_guard(self, rest, block, base, tline):
        s, f, arm = self._find_arm(rest)
        if arm['guard'] is None:
            self.emit('true', ('repo', s.path, s.line_of(arm['start'])))
        else:
            a, b = arm['guard_span']
            self.emit_repo(s, a, b, text=s.text[a:b].strip())

    def _d_slice(self, rest, block, base, tline):
        parts = [p.strip() for p in rest.split('|')]
        file, container, fn, frm, to = parts[:5]
        s, f = self._locate_fn(file, container, fn)
        body_lo = f['open'] + 1
        text = s.text
        # iterate over whole lines of the function body
        ls = text.find('\n', body_lo) + 1
        start = end = None
        frm_re = re.compile(frm.strip('/'))
        to_re = re.compile(to.strip('/'))
        pos = ls
        while pos < f['close']:
            le = text.find('\n', pos)
            le = f['close'] if le < 0 else le
            line = text[pos:le]
            if start is None:
                if frm_re.search(line):
                    start = pos
            elif to_re.search(line):
                end = pos
                break
            pos = le + 1
        if start is None or end is None:
            raise ExtractError('%s: slice %s..%s not found in fn %s' % (file, frm, to, fn))
        where = '%s:%d' % (s.path, s.line_of(start))
        seg = text[start:end].rstrip('\n')
        seg = self.apply_subs(self.apply_rules(seg, where), self._simple_subs(block), where)
        self.rewrites.append(('R-slice statements %s..%s of %s' % (frm, to, fn), where, 1))
        self.emit_repo(s, start, end, text=seg, fn='slice')

    def _d_macroarm(self, rest, block, base, tline):
        file, name, k = [p.strip() for p in rest.split('|')[:3]]
        s = self.src(file)
        a, b = s.find_item('macro_rules', name)
        o = s.masked.find('{', a)
        c = match_close(s.masked, o)
        # arms: ( matcher ) => { transcriber } ;
        i = o + 1
        arms = []
        while True:
            while i < c and s.masked[i] in ' \t\r\n;':
                i += 1
            if i >= c:
                break
            me = match_close(s.masked, i)
            j = s.masked.find('=>', me)
            t = j + 2
            while s.masked[t] in ' \t\r\n':
                t += 1
            te = match_close(s.masked, t)
            arms.append((i, me, t, te))
            i = te + 1
        k = int(k)
        if k >= len(arms):
            raise ExtractError('%s: macro %s has %d arms' % (file, name, len(arms)))
        _, _, t, te = arms[k]
        where = '%s:%d' % (file, s.line_of(t))
        text = self.apply_subs(self.apply_rules(s.text[t + 1:te], where), self._simple_subs(block), where)
        self.rewrites.append(('R-macro transcriber of %s arm %d' % (name, k), where, 1))
        self.emit_repo(s, t + 1, te, text=text, fn='macro')
