"""unit - assemble a single-file Verus crate from a unit template (`units/*.vx`).

A template is Verus source text (shims, spec functions, lemmas: everything that is NOT
executable code of /repo) with directives that splice in text extracted from the current
/repo working tree:

  //@unit NAME props=C03,C08 [rules=conv]
  //@include other.vx
  //@fn FILE | CONTAINER-HEADER or - | NAME [| props=..]     real fn, contracts spliced
  //@   ret r                 name the return value   (-> T  becomes  -> (r: T))
  //@   sub /REGEX/ => TEXT [xN]   logged textual rewrite, must apply exactly N times (default 1)
  //@   spec                  following raw lines = requires/ensures/decreases header
  //@   loop K                following raw lines = invariant/decreases of the K-th loop
  //@   proof start           following raw lines inserted at the start of the body
  //@   proof before /REGEX/  following raw lines inserted before the line matching REGEX
  //@   closure K             following raw lines replace `|params|` of the K-th closure
  //@end
  //@item FILE | KIND NAME        struct/enum/const/type/macro_rules item verbatim (+ sub lines, //@end)
  //@implhdr FILE | HEADER        the real impl header up to '{' (rules applied)
  //@arm FILE | FN-CONTAINER | FN | PATTERN [#K]     inner statements of a match arm
  //@guard FILE | FN-CONTAINER | FN | PATTERN [#K]   the arm's guard expression, or `true`
  //@slice FILE | FN-CONTAINER | FN | /FROM/ | /TO/  whole lines from the first line matching
  //@                                                FROM up to (excluding) the next line matching TO
  //@macroarm FILE | NAME | K      transcriber text of the K-th arm of macro_rules! NAME
  //@mustfail                  the next fn is a vacuity guard: it must FAIL to verify

A trailing `//: label [props]` comment on a spec line names the obligation.
Every output line remembers where it came from (template line, repo file:line or spec
label), which is how verifier diagnostics are mapped back to named obligations.
"""
import os
import re
from .rsx import Source, ExtractError, norm, match_close

REPO = os.environ.get('VERIF_REPO', '/repo')

# R-conv: std conversion traits cannot be shadowed inside a Verus file (vstd attaches
# trait-level contracts to them); the extracted text is renamed to same-shaped shim traits.
def rewrite_closures(text):
    """R-closurepat: `|(a, _)| EXPR` / `|_, v| EXPR` as a call argument: Verus takes only plain variables as closure
    parameters; a tuple pattern becomes a variable destructured by a `let` in front of the (single-expression) body, `_`
    becomes a fresh name.  Closures with a block body or plain parameters are left alone."""
    out = []
    i = 0
    n = 0
    while True:
        m = re.compile(r'(?<=[(,])\s*\|([^|\n]*)\|\s*(?=[^\s{|])').search(text, i)
        if not m:
            break
        params = m.group(1)
        ps = Unit._split_top(params, params)
        if not any(p_ == '_' or p_.startswith('(') or p_.startswith('&(') for p_ in ps):
            out.append(text[i:m.end()])
            i = m.end()
            continue
        # body: up to the unmatched `)` or a top-level `,`
        j = m.end()
        d = 0
        while j < len(text):
            c = text[j]
            if c in '([{':
                d += 1
            elif c in ')]}':
                if d == 0:
                    break
                d -= 1
            elif c == ',' and d == 0:
                break
            j += 1
        body = text[m.end():j].strip()
        names, lets = [], []
        for k, p_ in enumerate(ps):
            if p_ == '_':
                names.append('_vx_c%d' % k)
            elif p_.startswith('(') or p_.startswith('&('):
                names.append('vx_c%d' % k)
                lets.append('let %s = vx_c%d;' % (p_, k))
            else:
                names.append(p_)
        out.append(text[i:m.start()] + ' |%s| { %s %s }' % (', '.join(names), ' '.join(lets), body))
        i = j
        n += 1
    out.append(text[i:])
    return ''.join(out), n


RULES = {
    'autofor': [],
    'closurepat': [],      # handled by rewrite_closures()
    # R-strslice: slicing a string VARIABLE by a range is the call of a shim whose precondition is std's panic condition
    'strslice': [
        (r'&(\w+)\[([^\[\]]+?)\.\.([^\[\].][^\[\]]*?)\]', r'\1.vx_slice(\2, \3)'),
        (r'&(\w+)\[([^\[\]]+?)\.\.\]', r'\1.vx_slice_from(\2)'),
        (r'&(\w+)\[\.\.([^\[\]]+?)\]', r'\1.vx_slice_to(\2)'),
    ],
    'conv': [
        (r'\.try_into\(\)', '.vtry_into()'),
        (r'\.into\(\)', '.vinto()'),
        (r'\bTryFrom<', 'VTryFrom<'),
        (r'\bTryInto<', 'VTryInto<'),
        (r'\bFrom<', 'VFrom<'),
        (r'\bInto<', 'VInto<'),
        (r'\bfn from\(', 'fn vfrom('),
        (r'\bfn try_from\(', 'fn vtry_from('),
        (r'::try_from\(', '::vtry_from('),
        (r'\bfn into\(', 'fn vinto('),
    ],
}



def normp(x):
    """normal form of a pattern: white space and the trailing comma of a pattern split over lines are immaterial"""
    return re.sub(r',\)', ')', norm(x))


LABEL_RE = re.compile(r'//:\s*(\S+)(?:\s+(\S+))?\s*$')
AFTER = {}      # label -> labels whose failure subsumes this one (`//: label props/after=L1+L2`)


def parse_label(text):
    """`//: label [props[/after=L1+L2]]` -> (label, props or None); a clause marked /after=... is a residual clause:
    its failure is reported only when none of the listed clauses of the same run failed"""
    m = LABEL_RE.search(text)
    if not m:
        return None, None
    label, pr = m.group(1), m.group(2)
    props = None
    if pr:
        if '/after=' in pr:
            pr, a = pr.split('/after=', 1)
            AFTER[label] = a.split('+')
        props = pr.split(',') if pr else None
    return label, props


class Line:
    __slots__ = ('text', 'origin', 'fn')

    def __init__(self, text, origin, fn=None):
        self.text = text
        self.origin = origin
        self.fn = fn


class Unit:
    def __init__(self, path, quarantine=(), known_fns=None):
        self.path = path
        self.known_fns = known_fns          # names of the functions the unit itself defines (second pass): rule R-inline
        self.inlined = []
        self.quarantine = set(quarantine)   # functions whose body the verifier front end rejected: kept as contract only
        self.name = os.path.splitext(os.path.basename(path))[0]
        self.props = []
        self.rules = []
        self.lines = []
        self.sources = {}
        self.rewrites = []      # log of (rule, file:line, count)
        self.functions = []     # extracted functions: dict(name, file, line, props, clauses)
        self.mustfail = []      # names of vacuity-guard fns
        self.dropped = []
        self._pending_mustfail = False
        self.soft_undecided = []

    # ---------------------------------------------------------------------
    def src(self, rel):
        if rel not in self.sources:
            p = os.path.join(REPO, rel)
            if not os.path.exists(p):
                raise ExtractError('missing source file %s' % rel)
            text_ = open(p, encoding='utf-8').read()
            if self.known_fns is not None:
                from .inline import inline_helpers
                text_, log_ = inline_helpers(text_, self.known_fns, rel)
                for l_ in log_:
                    self.inlined.append(l_)
                if log_:
                    self.rewrites.append(('R-inline %d call(s) of helper functions the unit does not know replaced by their bodies' % len(log_), rel, len(log_)))
            self.sources[rel] = Source(rel, text_)
        return self.sources[rel]

    def emit(self, text, origin, fn=None):
        for l in text.split('\n'):
            self.lines.append(Line(l, origin, fn))

    def emit_repo(self, s, a, b, text=None, fn=None):
        """emit s.text[a:b] (or its rewritten form `text`) line by line with repo origins"""
        raw = s.text[a:b] if text is None else text
        ln = s.line_of(a)
        for i, l in enumerate(raw.split('\n')):
            self.lines.append(Line(l, ('repo', s.path, ln + i), fn))

    def apply_rules(self, text, where):
        if 'closurepat' in self.rules:
            text, n_ = rewrite_closures(text)
            if n_:
                self.rewrites.append(('R-closurepat pattern / `_` closure parameters made variables', where, n_))
        for r in self.rules:
            for pat, rep in RULES[r]:
                text, n = re.subn(pat, rep, text)
                if n:
                    self.rewrites.append(('R-%s %s -> %s' % (r, pat, rep), where, n))
        return text

    def apply_subs(self, text, subs, where):
        for pat, rep, cnt in subs:
            found = len(re.findall(pat, text))
            if cnt < 0:
                if found:
                    text = re.sub(pat, lambda m: m.expand(rep), text)
                    self.rewrites.append(('sub? /%s/ -> %s' % (pat, rep), where, found))
                continue
            if found != cnt:
                raise ExtractError('%s: rewrite /%s/ matches %d times, expected %d' % (where, pat, found, cnt))
            text = re.sub(pat, lambda m: m.expand(rep), text)
            self.rewrites.append(('sub /%s/ -> %s' % (pat, rep), where, cnt))
        return text

    # ---------------------------------------------------------------------
    def build(self):
        self._process(self.path)
        return '\n'.join(l.text for l in self.lines) + '\n'

    def _process(self, path):
        tl = open(path, encoding='utf-8').read().split('\n')
        i = 0
        base = os.path.basename(path)
        while i < len(tl):
            line = tl[i]
            st = line.strip()
            if not st.startswith('//@'):
                self.emit(line, ('tmpl', base, i + 1))
                if self._pending_mustfail:
                    m = re.search(r'\bfn\s+(\w+)', line)
                    if m:
                        self.mustfail.append(m.group(1))
                        self._pending_mustfail = False
                i += 1
                continue
            d = st[3:].strip()
            kw = d.split(None, 1)[0] if d else ''
            rest = d[len(kw):].strip()
            if kw == 'unit':
                parts = rest.split()
                for p in parts[1:]:
                    if p.startswith('props='):
                        self.props = p[6:].split(',')
                    elif p.startswith('rules='):
                        self.rules = p[6:].split(',')
                i += 1
            elif kw == 'include':
                self._process(os.path.join(os.path.dirname(path), rest))
                i += 1
            elif kw == 'require':
                # `//@require FILE | /REGEX/ | what`: a textual premise of the rewrite rules of this unit (e.g. the declared
                # type of a thread-local that rule R-tls turns into a parameter); if the source no longer matches, the unit's
                # reading of the code may be wrong: undecided, never an alarm
                file_, rx_, what_ = [x.strip() for x in rest.split('|', 2)]
                if not re.search(rx_.strip('/'), self.src(file_).text):
                    self.soft_undecided.append(dict(msg='%s: %s (premise of this unit not found in the source)' % (file_, what_), props=None))
                i += 1
            elif kw == 'mustfail':
                self._pending_mustfail = True
                i += 1
            elif kw in ('fn', 'item', 'implhdr', 'arm', 'guard', 'slice', 'macroarm', 'sig', 'callslice', 'quote', 'flaguse', 'skipguard', 'sortedfacts', 'frozen'):
                # collect block up to //@end (implhdr/guard are one-liners without block)
                block = []
                j = i + 1
                if kw not in ('implhdr',):
                    while j < len(tl) and tl[j].strip() != '//@end':
                        block.append((j + 1, tl[j]))
                        j += 1
                    if j >= len(tl):
                        raise ExtractError('%s:%d: missing //@end' % (base, i + 1))
                    j += 1
                getattr(self, '_d_' + kw)(rest, block, base, i + 1)
                i = j
            else:
                raise ExtractError('%s:%d: unknown directive %s' % (base, i + 1, kw))

    # ---------------------------------------------------------------------
    @staticmethod
    def _sections(block):
        """split a directive block into sections keyed by their //@ header"""
        secs = []
        cur = None
        for ln, l in block:
            st = l.strip()
            if st.startswith('//@'):
                cur = [st[3:].strip(), []]
                secs.append(cur)
            else:
                if cur is None:
                    if st:
                        raise ExtractError('line %d: text outside a section' % ln)
                    continue
                cur[1].append((ln, l))
        return secs

    @staticmethod
    def _parse_sub(h):
        # `sub /re/ => text [xN]` must match exactly N times; `sub? /re/ => text` adapts every occurrence (0 or more):
        # used for library-call adaptations that a change may legitimately remove
        m = re.match(r'sub(\??)\s+/(.*)/\s*=>\s*(.*?)(?:\s+x(\d+))?\s*$', h)
        if not m:
            raise ExtractError('bad sub directive: %s' % h)
        rep = m.group(3)
        if rep == '""':
            rep = ''
        return (m.group(2), rep, -1 if m.group(1) else int(m.group(4) or 1))

    def _locate_fn(self, file, container, name):
        s = self.src(file)
        lo, hi = 0, len(s.text)
        if container not in ('-', ''):
            for c in container.split(' @@ '):
                _, o, cl = s.find_container(c.strip(), lo, hi)
                lo, hi = o + 1, cl
        f = s.find_fn(name, lo, hi)
        return s, f

    def _d_fn(self, rest, block, base, tline):
        # call-site obligations (`callreq`) are checked on a second copy of the function (NAME__sites): a failed
        # assertion is assumed afterwards, so on the same copy it would hide the failure of the contract proper
        self._d_fn1(rest, block, base, tline, False)
        name = [p.strip() for p in rest.split('|')][2]
        crs = [l.strip() for _, l in block if l.strip().startswith('//@callreq ')]
        if crs and name not in self.quarantine:
            # one copy per set of properties: within a copy an earlier failed assertion may mask a later one, which is
            # harmless for the same properties and would hide another property's failure otherwise
            groups = []
            for c in crs:
                lb, pr = parse_label(c)
                key = ','.join(sorted(pr or []))
                if key not in groups:
                    groups.append(key)
            for gi, key in enumerate(groups):
                n_soft, n_rw = len(self.soft_undecided), len(self.rewrites)
                self._d_fn1(rest, block, base, tline, (gi + 1, key))
                seen = set(x['msg'] for x in self.soft_undecided[:n_soft])
                self.soft_undecided[n_soft:] = [x for x in self.soft_undecided[n_soft:] if x['msg'] not in seen]
                seen_rw = set(self.rewrites[:n_rw])
                self.rewrites[n_rw:] = [x for x in self.rewrites[n_rw:] if x not in seen_rw]

    def _d_fn1(self, rest, block, base, tline, sites):
        parts = [p.strip() for p in rest.split('|')]
        file, container, name = parts[0], parts[1], parts[2]
        props = self.props
        deflabel = None
        for p in parts[3:]:
            if p.startswith('props='):
                props = p[6:].split(',')
            if p.startswith('label='):
                # name and properties of the function's obligation when its contract lives in a trait-level spec (SpecImpl): an
                # otherwise unlabelled failure of this function is reported under it
                deflabel = parse_label('//: ' + p[6:].strip())
        s, f = self._locate_fn(file, container, name)
        where = '%s:%d' % (file, s.line_of(f['kw']))
        secs = self._sections(block)
        ret = None
        subs = []
        spec = []
        loops = {}
        proofs = []
        closures = {}
        callreqs = []
        forloops = {}
        forusing = {}
        foriter = {}
        loopends = {}
        for h, body in secs:
            if h.startswith('ret '):
                ret = h[4:].strip()
            elif h.startswith('sub ') or h.startswith('sub? '):
                subs.append(self._parse_sub(h))
            elif h == 'spec':
                spec = body
            elif h.startswith('loop '):
                loops[int(h[5:])] = body
            elif h.startswith('forloop '):
                fm = re.match(r'forloop\s+(\d+)(?:\s+using\s+(\w+))?(?:\s+iter\s+(.+))?$', h)
                forloops[int(fm.group(1))] = body
                if fm.group(2):
                    forusing[int(fm.group(1))] = fm.group(2)
                if fm.group(3):
                    foriter[int(fm.group(1))] = fm.group(3)
            elif h.startswith('loopend '):
                loopends[int(h[8:])] = body
            elif h.startswith('proof '):
                proofs.append((h[6:].strip(), body))
            elif h.startswith('closure '):
                closures[int(h[8:])] = body
            elif h.startswith('callreq '):
                if sites:
                    _lb, _pr = parse_label(h)
                    if ','.join(sorted(_pr or [])) == sites[1]:
                        callreqs.append(h[8:].strip())
            else:
                raise ExtractError('%s:%d: unknown section %s' % (base, tline, h))
        qual = (container + '::' if container not in ('-', '') else '') + name
        finfo = dict(name=name, qual=qual, file=file, line=s.line_of(f['kw']), props=props, clauses=[], deflabel=deflabel)
        if not sites:
            self.functions.append(finfo)
        fnkey = name

        # ---- signature
        sig = s.text[f['start']:f['open']]
        sig = self.apply_rules(sig, where)
        if ret:
            # last top-level `->` of the signature
            k = sig.rfind('->')
            if k < 0:
                raise ExtractError('%s: ret given but fn %s has no return type' % (where, name))
            wm = re.search(r'\bwhere\b', sig[k:])
            ty_end = k + wm.start() if wm else len(sig)
            ty = sig[k + 2:ty_end].strip()
            sig = sig[:k] + '-> (%s: %s)' % (ret, ty) + ('\n' + sig[ty_end:] if wm else '\n')
            self.rewrites.append(('R-ret name return value %s' % ret, where, 1))
        body = s.text[f['open']:f['close'] + 1]
        # ---- insertions into the body are computed on offsets relative to body start
        ins = []   # (offset_in_body, kind, payload_lines)
        repl = []  # (start, end, text)
        b0 = f['open']
        lps = s.loops_in(f['open'] + 1, f['close'])
        # annotations whose anchor disappeared are dropped (remembered as soft-undecided): the function is still
        # verified against its contract, so a change that removes the loop AND breaks the postcondition fails
        for k, lines in list(loops.items()):
            if k >= len(lps):
                self.soft_undecided.append(dict(msg='%s: fn %s has %d loops, contract annotates loop %d' % (where, name, len(lps), k), props=list(props), fn=name, anchor='loop', loops_left=len(lps), closures=len(s.closures_in(f['open'] + 1, f['close']))))
                continue
            ins.append((lps[k]['open'] - b0, 'loop%d' % k, lines))
        for k in range(len(lps)):
            if k not in loops and lps[k]['kind'] in ('for', 'while', 'loop'):
                # a loop without invariant is legal for Verus only in trivial cases; leave as is
                pass
        # R-for (automatic): a `for` loop the contract does not annotate is desugared the same
        # way over the generic shim `vx_iter(..)`, without invariant: whatever it modifies is
        # havocked, so a loop the contract does not anticipate makes the postcondition fail
        # instead of making the unit unreadable for the verifier
        auto_for = False
        if 'autofor' in self.rules:
            for k, lp in enumerate(lps):
                if lp['kind'] == 'for' and k not in loops and k not in forloops:
                    hdr = s.text[lp['kw'] + 3:lp['open']]
                    hm = s.masked[lp['kw'] + 3:lp['open']]
                    mi = re.search(r'\bin\b', hm)
                    pat, expr = hdr[:mi.start()].strip(), self.apply_rules(hdr[mi.end():].strip(), where)
                    new_ = 'let mut vx_it%d = vx_iter(%s);\nloop\n{ match vx_it%d.next() { None => { break; } Some(%s) => {' % (k, expr, k, pat)
                    repl.append((lp['kw'] - b0, lp['open'] + 1 - b0, new_))
                    repl.append((lp['close'] - b0, lp['close'] - b0, ' } } '))
                    self.rewrites.append(('R-for (auto) desugar unannotated for-loop %d over %s' % (k, expr), where, 1))
                    auto_for = True
        for k, lines in loopends.items():
            if k >= len(lps):
                self.soft_undecided.append(dict(msg='%s: fn %s has %d loops, contract annotates the end of loop %d' % (where, name, len(lps), k), props=list(props), fn=name, anchor='loop', loops_left=len(lps), closures=len(s.closures_in(f['open'] + 1, f['close']))))
                continue
            ins.append((lps[k]['close'] - b0, 'proof', lines))
        cls = s.closures_in(f['open'] + 1, f['close'])
        # R-for: the language's own desugaring of `for PAT in EXPR { B }`, giving Verus a
        # place for the invariant when EXPR is a shim iterator
        for k, lines in forloops.items():
            if k >= len(lps) or lps[k]['kind'] != 'for':
                self.soft_undecided.append(dict(msg='%s: fn %s: contract annotates for-loop %d which is not there' % (where, name, k), props=list(props), fn=name, anchor='loop', loops_left=len(lps), closures=len(s.closures_in(f['open'] + 1, f['close']))))
                continue
            lp = lps[k]
            hdr = s.text[lp['kw'] + 3:lp['open']]
            hm = s.masked[lp['kw'] + 3:lp['open']]
            mi = re.search(r'\bin\b', hm)
            pat, expr = hdr[:mi.start()].strip(), self.apply_rules(hdr[mi.end():].strip(), where)
            if k in forusing and re.search(r'\.iter\(\)$', expr) and k not in foriter:
                # `for x in v.iter()` visits what `for x in v` visits when v is a slice / &Vec (std); the shim takes v
                self.rewrites.append(('R-for %s iterates like %s' % (expr, expr[:-7]), where, 1))
                expr = expr[:-7]
            if k in foriter:
                # the iterated expression uses iterator adapters: replaced by a shim call that yields the
                # same items (logged); the loop body stays verbatim
                self.rewrites.append(('R-for iterate %s through %s' % (expr, foriter[k]), where, 1))
                expr = foriter[k]
            itexpr = '%s(%s)' % (forusing[k], expr) if k in forusing else '(%s).into_iter()' % expr
            # `let ghost ..` lines of the section are hoisted in front of the loop (ghost snapshots it needs)
            ghosts = [l for _, l in lines if l.strip().startswith('let ghost')]
            invs = [l for _, l in lines if not l.strip().startswith('let ghost')]
            new = '%s\nlet mut vx_it%d = %s;\nloop\n%s\n{ match vx_it%d.next() { None => { break; } Some(%s) => {' % (
                '\n'.join(ghosts), k, itexpr, '\n'.join(invs), k, pat)
            repl.append((lp['kw'] - b0, lp['open'] + 1 - b0, new))
            repl.append((lp['close'] - b0, lp['close'] - b0, ' } } '))
            self.rewrites.append(('R-for desugar for-loop %d over %s' % (k, expr), where, 1))
        for k, lines in closures.items():
            if k >= len(cls):
                raise ExtractError('%s: fn %s has %d closures, contract refers to closure %d' % (where, name, len(cls), k))
            repl.append((cls[k]['start'] - b0, cls[k]['params_end'] - b0, '\n'.join(l for _, l in lines)))
            if not cls[k]['braced']:
                repl.append((cls[k]['body_start'] - b0, cls[k]['body_start'] - b0, '{ '))
                repl.append((cls[k]['body_end'] - b0, cls[k]['body_end'] - b0, ' }'))
            self.rewrites.append(('R-closure annotate closure %d' % k, where, 1))
        for pos, lines in proofs:
            if pos == 'start':
                ins.append((1, 'proof', lines))
            elif pos == 'end':
                ins.append((len(body) - 1, 'proof', lines))      # before the closing brace (unit-returning fns)
            else:
                m = re.match(r'before\s+/(.*)/\s*(?:#(\d+))?$', pos)
                if not m:
                    raise ExtractError('%s:%d: bad proof position %s' % (base, tline, pos))
                hits = [mm for mm in re.finditer(m.group(1), body)]
                want = int(m.group(2) or 0)
                if len(hits) <= want:
                    self.soft_undecided.append(dict(msg='%s: proof anchor /%s/ not found in fn %s' % (where, m.group(1), name), props=list(props), fn=name, anchor='proof', loops_left=len(lps), closures=len(s.closures_in(f['open'] + 1, f['close']))))
                    continue
                off = body.rfind('\n', 0, hits[want].start()) + 1
                ins.append((off, 'proof', lines))
        # call-site obligations: `callreq CALLEE @ FILE | PARAM | TEMPLATE //: label props` asserts TEMPLATE (with `$`
        # standing for the argument passed for the callee's parameter PARAM) in front of every statement of this
        # function that calls CALLEE.  No call, no obligation.
        mbody = s.masked[f['open']:f['close'] + 1]
        for cr in callreqs:
            cm = re.match(r'(\w+)\s*@\s*(\S+)\s*\|\s*(\w+)\s*\|\s*(.*?)\s*(//:.*)$', cr)
            if not cm:
                raise ExtractError('%s:%d: bad callreq %s' % (base, tline, cr))
            cname, cfile, param, templ, lab = cm.groups()
            cs, cf = self._locate_fn(cfile, '-', cname)
            pnames = self._param_names(cs, cf)
            if param not in pnames:
                self.soft_undecided.append(dict(msg='%s: %s has no parameter %s any more' % (cfile, cname, param), props=list(props)))
                continue
            n_sites = 0
            for mm in re.finditer(r'(?<![\w.:])%s\s*(?:::<[^>]*>)?\s*\(' % cname, mbody):
                o = mm.end() - 1
                e = match_close(mbody, o)
                args = self._split_top(body[o + 1:e], mbody[o + 1:e])
                if len(args) != len(pnames):
                    self.soft_undecided.append(dict(msg='%s: call to %s in %s has %d arguments, its signature %d' % (where, cname, name, len(args), len(pnames)), props=list(props)))
                    continue
                st = self._stmt_start(mbody, mm.start())
                if st is None:
                    self.soft_undecided.append(dict(msg='%s: call to %s in %s is not a statement of its own (match arm / nested expression)' % (where, cname, name), props=list(props)))
                    continue
                arg = args[pnames.index(param)]
                arg = re.sub(r'\s+', ' ', re.sub(r'//[^\n]*|/\*.*?\*/', ' ', arg, flags=re.S)).strip()     # comments between arguments
                arg = self.apply_rules(arg, where)
                # an argument BUILT on the spot by a pure constructor (`&Defines::new()`, `x.clone()`, `Default::default()`) cannot stand
                # inside a proof block (exec call): in this obligation-only copy it is evaluated once more into a local the assertion reads
                pm = re.match(r'^(&\s*(?:mut\s+)?)?([\w:<>, ]+::(?:new|default)\(\)|[\w.]+\.(?:clone|to_owned|to_path_buf|to_string)\(\))$', arg)
                if pm:
                    self._crn = getattr(self, '_crn', 0) + 1
                    v_ = 'vx_cr%d' % self._crn
                    ins.append((st, 'proof', [(tline, 'let %s = %s;' % (v_, pm.group(2)))]))
                    arg = (pm.group(1) or '') + v_
                ins.append((st, 'proof', [(tline, 'proof { assert(%s); }   %s' % (templ.replace('$', '(' + arg + ')'), lab))]))
                n_sites += 1
            self.rewrites.append(('callreq %s.%s: %d call site(s) in %s' % (cname, param, n_sites, name), where, n_sites))
        sig_pending = sig
        # body with insertions: walk through body text
        events = sorted([(o, 0, k, l) for o, k, l in ins] + [(a, 1, b, t) for a, b, t in repl], key=lambda e: (e[0], e[1]))
        cur = 0
        pieces = []  # (kind, text or lines, src_offset)
        for e in events:
            if e[1] == 0:
                o, _, kind, lines = e
                pieces.append(('src', body[cur:o], cur))
                pieces.append(('ins', (kind, lines), o))
                cur = o
            else:
                a, _, b, t = e
                pieces.append(('src', body[cur:a], cur))
                pieces.append(('rep', t, a))
                cur = b
        pieces.append(('src', body[cur:], cur))
        # apply rules and subs on src pieces jointly: simplest is to render to text with
        # markers, rewrite, then split; markers are unique tokens on their own
        rendered = ''
        marks = {}
        for idx, (k, payload, off) in enumerate(pieces):
            if k == 'src':
                rendered += payload
            else:
                mk = '/*@@%d@@*/' % idx
                marks[mk] = (k, payload)
                rendered += mk
        rendered = self.apply_rules(rendered, where)
        # subs apply to signature + body jointly (the expected count is the total)
        SEP = '/*@@SIGEND@@*/'
        joint = self.apply_subs(sig_pending + SEP + rendered, subs, where)
        sig_new, rendered = joint.split(SEP)
        if sites:
            sig_new = re.sub(r'\bfn\s+%s\b' % re.escape(name), 'fn %s__sites%d' % (name, sites[0]), sig_new, count=1)
        if name in self.quarantine:
            # the body is outside what the verifier accepts on this tree: keep signature + contract (callers still
            # verify against it), drop the body; the function itself is reported undecided
            self.lines.append(Line('#[verifier::external_body]', ('tmpl', base, tline), fnkey))
            self.emit_repo(s, f['start'], f['open'], text=sig_new.rstrip('\n'), fn=fnkey)
            for ln, l in spec:
                self.lines.append(Line(l, ('spec', base, ln, name, None, props), fnkey))
            self.lines.append(Line('{ unimplemented!() }', ('tmpl', base, tline), fnkey))
            # every property one of the function's clauses is labelled with is undecided as well
            qprops = list(props)
            for ln, l in spec:
                _lb, _lp = parse_label(l)
                for p_ in (_lp or []):
                    if p_ not in qprops:
                        qprops.append(p_)
            self.soft_undecided.append(dict(msg='%s: body of %s is not accepted by the verifier front end on this tree (obligations of %s undecided)' % (where, name, ','.join(qprops)), props=qprops))
            self.quarantined_props = getattr(self, 'quarantined_props', set()) | set(qprops)
            return
        # ---- emit signature, spec header, then the body
        if auto_for:
            self.lines.append(Line('#[verifier::exec_allows_no_decreases_clause]', ('tmpl', base, tline), fnkey))
        self.emit_repo(s, f['start'], f['open'], text=sig_new.rstrip('\n'), fn=fnkey)
        # a functional clause (ensures) without props of its own belongs to what the function computes, not to its
        # totality: C08 is dropped from the inherited list unless it is all there is; requires clauses keep it
        fprops = [p_ for p_ in props if p_ != 'C08'] or list(props)
        mode = None
        for ln, l in spec:
            mk = re.match(r'\s*(requires|ensures|recommends|decreases)\b', l)
            if mk:
                mode = mk.group(1)
            lab, lprops = parse_label(l)
            org = ('spec', base, ln, name, lab, lprops if lprops else (fprops if mode == 'ensures' else props))
            self.lines.append(Line(l, org, fnkey))
            if lab:
                finfo['clauses'].append(lab)
        # emit line by line; repo line numbers are approximate after insertions of text on
        # the same line, exact otherwise
        ln = s.line_of(f['open'])
        buf = ''
        pos = 0
        for m in re.finditer(r'/\*@@(\d+)@@\*/', rendered):
            chunk = rendered[pos:m.start()]
            for i, l in enumerate(chunk.split('\n')):
                if i > 0:
                    self.lines.append(Line(buf, ('repo', s.path, ln), fnkey))
                    buf = ''
                    ln += 1
                buf += l
            k, payload = marks[m.group(0)]
            if k == 'ins':
                kind, lines = payload
                self.lines.append(Line(buf, ('repo', s.path, ln), fnkey))
                buf = ''
                for tl_, l in lines:
                    lab, lprops = parse_label(l)
                    self.lines.append(Line(l, ('spec', base, tl_, name, (lab if lab else kind),
                                               lprops if lprops else props), fnkey))
            else:
                # replacement text may span several lines; they all map to the current repo line
                parts_ = payload.split('\n')
                for i, l in enumerate(parts_):
                    if i > 0:
                        self.lines.append(Line(buf, ('repo', s.path, ln), fnkey))
                        buf = ''
                    buf += l
            pos = m.end()
        chunk = rendered[pos:]
        for i, l in enumerate(chunk.split('\n')):
            if i > 0:
                self.lines.append(Line(buf, ('repo', s.path, ln), fnkey))
                buf = ''
                ln += 1
            buf += l
        self.lines.append(Line(buf, ('repo', s.path, ln), fnkey))

    # ---------------------------------------------------------------------
    def _simple_subs(self, block):
        subs = []
        for h, body in self._sections(block):
            if h.startswith('sub ') or h.startswith('sub? '):
                subs.append(self._parse_sub(h))
            else:
                raise ExtractError('unknown section %s' % h)
        return subs

    def _d_item(self, rest, block, base, tline):
        file, what = [p.strip() for p in rest.split('|')[:2]]
        kind, name = what.split()
        s = self.src(file)
        a, b = s.find_item(kind, name)
        where = '%s:%d' % (file, s.line_of(a))
        text = self.apply_subs(self.apply_rules(s.text[a:b], where), self._simple_subs(block), where)
        # R-derive: a derive list the template did not adapt (it changed) and that names more than Clone/Copy is dropped:
        # the derived impls (Debug, PartialEq, Node, ..) are outside the verified text anyway
        def _drv(m):
            names = [x.strip() for x in m.group(1).split(',') if x.strip()]
            return m.group(0) if all(x in ('Clone', 'Copy', 'PartialEq', 'Eq') for x in names) else ''
        wants_adaptation = any(pat.startswith('#\\[derive') for pat, _r, _c in self._simple_subs(block))
        text2 = re.sub(r'[ \t]*#\[derive\(([^)]*)\)\]\n', _drv, text) if wants_adaptation else text
        if text2 != text:
            self.rewrites.append(('R-derive drop a derive list that is not only Clone/Copy', where, 1))
        self.emit_repo(s, a, b, text=text2)

    def _d_sortedfacts(self, rest, block, base, tline):
        """`//@sortedfacts FILE | LEMMA | PRED` with lines `CONST => SPEC_EXPR`: a data fact computed on every run from the
        string literals of the constant tables of FILE: LEMMA() ensures PRED(SPEC_EXPR) for exactly those tables whose
        literals are strictly increasing in byte order on this tree (nothing is claimed about the others)"""
        file, lemma, pred = [p.strip() for p in rest.split('|')[:3]]
        s = self.src(file)
        facts = []
        notes = []
        for ln, l in block:
            if '=>' not in l:
                continue
            cname, expr = [x.strip() for x in l.strip().lstrip('/').split('=>', 1)]
            m = re.search(r'const\s+%s\s*:\s*&\[&str\]\s*=\s*&\[(.*?)\];' % re.escape(cname), s.text, re.S)
            if not m:
                self.soft_undecided.append(dict(msg='%s: constant table %s not found' % (file, cname), props=list(self.props)))
                continue
            items = [x.encode('utf-8') for x in re.findall(r'"((?:[^"\\]|\\.)*)"', m.group(1))]
            ok = all(items[i] < items[i + 1] for i in range(len(items) - 1))
            notes.append('%s: %d literals, %s' % (cname, len(items), 'strictly increasing' if ok else 'NOT sorted'))
            if ok:
                facts.append('%s(%s)' % (pred, expr))
        self.emit('// data facts from the literals of %s on this tree: %s' % (file, '; '.join(notes)), ('tmpl', base, tline))
        self.emit('#[verifier::external_body] pub proof fn %s() ensures %s { }' % (lemma, ', '.join(facts) if facts else 'true'), ('tmpl', base, tline))
        self.rewrites.append(('data fact %s: %s' % (lemma, '; '.join(notes)), file, 1))

    def _d_frozen(self, rest, block, base, tline):
        """`//@frozen FILE | CONTAINER | FN | /from/ | /to/` followed by the expected text: a stretch of the function that no
        unit verifies statement by statement (it is covered by another unit's slice, or is plain plumbing) must still be,
        comments and layout aside, the text written here; otherwise a statement nobody looked at may have appeared:
        undecided, never an alarm.  `/^/` as from = start of the body."""
        parts = [p.strip() for p in rest.split('|')]
        file, container, fn, frm, to = parts[:5]
        s, f = self._locate_fn(file, container, fn)
        lo, hi = f['open'] + 1, f['close']
        body = s.text[lo:hi]
        a = 0 if frm.strip('/') == '^' else None
        if a is None:
            m = re.search(frm.strip('/'), body)
            a = body.rfind('\n', 0, m.start()) + 1 if m else None
        m2 = re.search(to.strip('/'), body[a:]) if a is not None else None
        if a is None or m2 is None:
            self.soft_undecided.append(dict(msg='%s: frozen stretch %s..%s of %s not found' % (file, frm, to, fn), props=None))
            return
        b = body.rfind('\n', 0, a + m2.start()) + 1
        def plain(x):
            x = re.sub(r'//[^\n]*', '', x)
            x = re.sub(r'/\*.*?\*/', '', x, flags=re.S)
            return re.sub(r'\s+', '', x)
        want = plain('\n'.join(l for _, l in block))
        got = plain(body[a:b])
        if want != got:
            k = 0
            while k < min(len(want), len(got)) and want[k] == got[k]:
                k += 1
            self.soft_undecided.append(dict(msg='%s:%d: the stretch %s..%s of %s, which no unit reads statement by statement, is no longer the text it was when the units were written (differs near `%s`)' % (
                file, s.line_of(lo + a), frm, to, fn, got[max(0, k - 10):k + 30]), props=None))
        self.rewrites.append(('frozen stretch %s..%s of %s compared with its committed text' % (frm, to, fn), file, 1))

    def _d_sig(self, rest, block, base, tline):
        """the real signature of a function (no body): used to give a callee an assumed
        contract that is keyed by the callee's own parameter NAMES"""
        parts = [p.strip() for p in rest.split('|')]
        file, container, name = parts[0], parts[1], parts[2]
        ret = None
        for p in parts[3:]:
            if p.startswith('ret '):
                ret = p[4:].strip()
        s, f = self._locate_fn(file, container, name)
        where = '%s:%d' % (file, s.line_of(f['kw']))
        sig = self.apply_rules(s.text[f['start']:f['open']], where)
        sig = self.apply_subs(sig, self._simple_subs(block), where)
        if ret:
            k = sig.rfind('->')
            if k < 0:
                raise ExtractError('%s: ret given but fn %s has no return type' % (where, name))
            wm = re.search(r'\bwhere\b', sig[k:])
            ty_end = k + wm.start() if wm else len(sig)
            ty = sig[k + 2:ty_end].strip()
            sig = sig[:k] + '-> (%s: %s)' % (ret, ty) + ('\n' + sig[ty_end:] if wm else '')
        self.rewrites.append(('R-sig callee signature %s (contract keyed by parameter name)' % name, where, 1))
        self.emit_repo(s, f['start'], f['open'], text=sig.rstrip(), fn=None)

    def _d_implhdr(self, rest, block, base, tline):
        file, header = [p.strip() for p in rest.split('|', 1)]
        s = self.src(file)
        a, o, c = s.find_container(header)
        where = '%s:%d' % (file, s.line_of(a))
        text = self.apply_rules(s.text[a:o + 1], where)
        self.emit_repo(s, a, o + 1, text=text)

    def _find_arm(self, rest):
        parts = [p.strip() for p in rest.split('|')]
        file, container, fn, pat = parts[0], parts[1], parts[2], parts[3]
        k = 0
        m = re.match(r'(.*?)\s*#(\d+)$', pat)
        if m:
            pat, k = m.group(1), int(m.group(2))
        s, f = self._locate_fn(file, container, fn)
        npat = lambda t: norm(t).replace(',)', ')')
        arms = [a for a in s.arms_in(f['open'] + 1, f['close']) if npat(a['pat']) == npat(pat)]
        if len(arms) <= k:
            raise ExtractError('%s: arm %r #%d not found in fn %s (found %d)' % (file, pat, k, fn, len(arms)))
        return s, f, arms[k]

    def _d_arm(self, rest, block, base, tline):
        as_name = None
        m = re.search(r'\|\s*as\s+(\w+)\s*$', rest)
        if m:
            as_name = m.group(1)
            rest = rest[:m.start()]
        wrap, pre, post, nb = None, [], [], []
        for ln_, l_ in block:
            st = l_.strip()
            if st.startswith('//@wrap '):
                wrap = st[8:]
            elif st.startswith('//@pre '):
                pre.append(st[7:])
            elif st.startswith('//@post '):
                post.append(st[8:])
            else:
                nb.append((ln_, l_))
        s, f, arm = self._find_arm(rest)
        a, b = arm['body']
        where = '%s:%d' % (s.path, s.line_of(a))
        text = s.text[a:b]
        if not arm['braced']:
            text = text + ';'
        self.rewrites.append(('R-arm lift match arm %s' % norm(arm['pat'])[:60], where, 1))
        if as_name:
            # R-continue: in an arm of the LAST match of the loop body a `continue` (outside any inner loop) ends the
            # iteration exactly like reaching the end of the arm does; in the lifted function that is `return <post>`
            inner = [(lp['kw'], lp['close']) for lp in s.loops_in(a, b)]
            conts = [m_ for m_ in re.finditer(r"\bcontinue\b(?!\s*')", s.masked[a:b]) if not any(x <= a + m_.start() < y for x, y in inner)]
            if conts:
                if self._arm_match_ends_loop_body(s, arm):
                    ret_txt = 'return %s' % post[0].rstrip(';') if post else 'return'
                    for m_ in reversed(conts):
                        text = text[:m_.start()] + ret_txt + text[m_.end():]
                    self.rewrites.append(('R-continue %d `continue` of the arm become `%s`' % (len(conts), ret_txt), where, len(conts)))
                else:
                    self.soft_undecided.append(dict(msg='%s: arm %s uses `continue` although later statements of the loop body follow its match' % (where, norm(arm['pat'])[:60]), props=list(self.props)))
            # virtual source: `wrap { pre; <arm body verbatim>; post }` so that //@fn can splice
            # contracts, loop invariants and proof blocks into it like into any function
            text = self.apply_subs(text, self._simple_subs(nb), where)
            head = wrap + ' {\n' + ''.join(p_ + '\n' for p_ in pre)
            vt = head + text + '\n' + ''.join(p_ + '\n' for p_ in post) + '}\n'
            self.sources['arm:' + as_name] = Source(s.path, vt, line_base=s.line_of(a) - 1 - head.count('\n'))
        else:
            text = self.apply_subs(self.apply_rules(text, where), self._simple_subs(nb), where)
            self.emit_repo(s, a, b, text=text, fn='arm')

    @staticmethod
    def _arm_match_ends_loop_body(s, arm):
        """does the match this arm belongs to stand last in its enclosing block (only closing braces follow)?"""
        m = s.masked
        i = arm['end']
        d = 0
        # to the closing brace of the match
        while i < len(m):
            if m[i] in '([{':
                d += 1
            elif m[i] in ')]}':
                if d == 0:
                    break
                d -= 1
            i += 1
        j = i + 1
        while j < len(m) and m[j] in ' \t\r\n;':
            j += 1
        return j < len(m) and m[j] == '}'

    def _d_guard(self, rest, block, base, tline):
        s, f, arm = self._find_arm(rest)
        if arm['guard'] is None:
            self.emit('true', ('repo', s.path, s.line_of(arm['start'])))
        else:
            a, b = arm['guard_span']
            self.emit_repo(s, a, b, text=s.text[a:b].strip())

    def _d_slice(self, rest, block, base, tline):
        parts = [p.strip() for p in rest.split('|')]
        file, container, fn, frm, to = parts[:5]
        s, f = self._locate_fn(file, container, fn)
        body_lo = f['open'] + 1
        text = s.text
        # iterate over whole lines of the function body
        ls = text.find('\n', body_lo) + 1
        start = end = None
        frm_re = re.compile(frm.strip('/'))
        to_re = re.compile(to.strip('/')) if to.strip('/') != '$' else re.compile(r'(?!x)x')     # `/$/`: up to the end of the body
        pos = ls
        while pos < f['close']:
            le = text.find('\n', pos)
            le = f['close'] if le < 0 else le
            line = text[pos:le]
            if start is None:
                if frm_re.search(line):
                    start = pos
            elif to_re.search(line):
                end = pos
                break
            pos = le + 1
        if start is not None and end is None and to.strip('/') == '$':
            end = text.rfind('\n', 0, f['close']) + 1       # up to the end of the function body
        if start is None or end is None:
            raise ExtractError('%s: slice %s..%s not found in fn %s' % (file, frm, to, fn))
        where = '%s:%d' % (s.path, s.line_of(start))
        seg = text[start:end].rstrip('\n')
        # R-outline: `//@outline PATTERN [#k] => TEXT` replaces the body of the match arm with that pattern by TEXT (a call
        # of the function that unit `arms` verified this very body as); `//@inventory` makes every arm of the slice that
        # is neither outlined nor listed by `//@inline PATTERN` a reason for indecision (an arm the contracts do not know)
        outl = []
        inline_ok = []
        inventory = False
        statevars = []
        rest_block = []
        for ln, l in block:
            st = l.strip()
            if st.startswith('//@outline '):
                om = re.match(r'//@outline\s+(.*?)(?:\s+#(\d+))?\s*=>\s*(.*)$', st)
                outl.append((om.group(1).strip(), int(om.group(2) or 0), om.group(3)))
            elif st.startswith('//@inline '):
                im = re.match(r'//@inline\s+(.*?)(?:\s+#(\d+))?\s*$', st)
                inline_ok.append((im.group(1).strip(), int(im.group(2) or 0)))
            elif st == '//@inventory':
                inventory = True
            elif st.startswith('//@statevars '):
                statevars = st[13:].split()
            else:
                rest_block.append((ln, l))
        if outl or inventory:
            arms = s.arms_in(start, end)
            seen = {}
            keyed = []
            for a in arms:
                k = normp(a['pat'])
                idx = seen.get(k, 0)
                seen[k] = idx + 1
                keyed.append((k, idx, a))
            repl = []
            used = set()
            for pat, k, txt in outl:
                hit = [a for kk, idx, a in keyed if kk == normp(pat) and idx == k]
                if not hit:
                    self.soft_undecided.append(dict(msg='%s: arm %s #%d to outline not found in %s' % (file, pat, k, fn), props=list(self.props)))
                    continue
                a = hit[0]
                used.add((normp(pat), k))
                b0, b1 = a['body']
                # side condition of R-outline: whatever loop state the arm body assigns must come back through the call
                # (assignment target or &mut argument of the replacement text); otherwise the call is not the body
                READONLY = ('get', 'contains', 'contains_key', 'iter', 'len', 'is_empty', 'clone', 'keys', 'values', 'as_ref', 'is_some', 'is_none')
                bm = s.masked[b0:b1]
                for v in statevars:
                    writes = re.search(r'(?<![\w.])%s\s*(?:[-+*/|&^]|<<|>>)?=(?!=)' % v, bm) or re.search(r'&mut\s+%s\b' % v, bm) \
                        or any(mm.group(1) not in READONLY for mm in re.finditer(r'(?<![\w.])%s\s*\.\s*(\w+)\s*\(' % v, bm))
                    back = re.search(r'(?<![\w.])%s\s*=(?!=)' % v, txt) or re.search(r'&mut\s+%s\b' % v, txt)
                    if writes and not back:
                        self.soft_undecided.append(dict(msg='%s:%d: arm `%s` assigns the loop variable %s, which its outlined call does not hand back' % (file, s.line_of(b0), re.sub(r'\s+', ' ', a['pat'])[:70], v), props=list(self.props)))
                repl.append((b0 - start, b1 - start, (' ' + txt + ' ') if a['braced'] else ('{ ' + txt + ' }')))
            if inventory:
                for kk, idx, a in keyed:
                    if (kk, idx) in used or any(normp(p_) == kk and k_ == idx for p_, k_ in inline_ok):
                        continue
                    # arms of matches nested inside an outlined or inlined arm body belong to that arm
                    if any(x[0] <= a['start'] - start < x[1] for x in repl):
                        continue
                    if any(b['body'][0] <= a['start'] < b['body'][1] for k2, i2, b in keyed if any(normp(p_) == k2 and k_ == i2 for p_, k_ in inline_ok)):
                        continue
                    self.soft_undecided.append(dict(msg='%s:%d: match arm `%s` of %s is not one the contracts know' % (file, s.line_of(a['start']), re.sub(r'\s+', ' ', a['pat'])[:80], fn), props=list(self.props)))
            for b0, b1, txt in sorted(repl, reverse=True):
                seg = seg[:b0] + txt + '\n' * seg[b0:b1].count('\n') + seg[b1:]      # line numbers of what follows stay exact
            self.rewrites.append(('R-outline %d arm bodies of %s replaced by calls of the functions they are verified as' % (len(repl), fn), where, len(repl)))
        seg = self.apply_subs(self.apply_rules(seg, where), self._simple_subs(rest_block), where)
        self.rewrites.append(('R-slice statements %s..%s of %s' % (frm, to, fn), where, 1))
        self.emit_repo(s, start, end, text=seg, fn='slice')

    # ---------------------------------------------------------------------
    @staticmethod
    def _stmt_start(masked, pos):
        """offset where the statement containing masked[pos] begins (None if it is a match-arm expression)"""
        d = 0
        i = pos - 1
        while i >= 0:
            c = masked[i]
            if c in ')]}':
                if c == '}' and d == 0:
                    return i + 1
                d += 1
            elif c in '([{':
                if d == 0:
                    if c == '{':
                        return i + 1
                    # inside the argument list / index of an enclosing expression: keep going outwards
                else:
                    d -= 1
            elif c == ';' and d == 0:
                return i + 1
            elif c == '>' and d == 0 and i > 0 and masked[i - 1] == '=':
                return None
            i -= 1
        return None

    @staticmethod
    def _split_top(text, masked):
        """split at top-level commas (brackets and angle brackets respected)"""
        parts = []
        d = 0
        cur = 0
        i = 0
        while i < len(text):
            c = masked[i]
            if c in '([{<':
                d += 1
            elif c in ')]}>':
                if c == '>' and i > 0 and masked[i - 1] in '-=':
                    pass
                else:
                    d -= 1
            elif c == ',' and d == 0:
                parts.append(text[cur:i])
                cur = i + 1
            i += 1
        if masked[cur:].strip():
            parts.append(text[cur:])
        return [p.strip() for p in parts]

    def _param_names(self, s, f):
        """parameter names of fn f (dict from find_fn) in order"""
        i = f['kw']
        # skip generics
        j = s.masked.find('(', i)
        lt = s.masked.find('<', i)
        if 0 <= lt < j:
            d = 0
            k = lt
            while True:
                if s.masked[k] == '<':
                    d += 1
                elif s.masked[k] == '>' and s.masked[k - 1] not in '-=':
                    d -= 1
                    if d == 0:
                        break
                k += 1
            j = s.masked.find('(', k)
        e = match_close(s.masked, j)
        names = []
        for p in self._split_top(s.text[j + 1:e], s.masked[j + 1:e]):
            m = re.match(r'(?:mut\s+)?(&?\s*(?:mut\s+)?self|\w+)\s*(?::|$)', p)
            if not m:
                raise ExtractError('%s: cannot parse parameter %r' % (s.path, p))
            names.append(m.group(1))
        return names

    def _d_callslice(self, rest, block, base, tline):
        """R-slice: the recursion skeleton of a function = its depth guard(s) and every call to a
        tracked callee with the arguments bound to the tracked parameters (by the callee's
        real parameter names), in source order.  A statement nested in a branch/loop/closure
        becomes conditional (`if vx_nondet()`).  Everything else is dropped."""
        parts = [p.strip() for p in rest.split('|')]
        file, container, name = parts[0], parts[1], parts[2]
        s, f = self._locate_fn(file, container, name)
        where = '%s:%d' % (file, s.line_of(f['kw']))
        track = []
        callees = {}
        forward = []
        live = {}
        okfrom = None
        guard_re = None
        for ln, l in block:
            st = l.strip()
            if not st.startswith('//@'):
                continue
            h = st[3:].strip()
            if h.startswith('track '):
                track = [t.split(':')[0] for t in h[6:].split()]
                ttype = dict((t.split(':') + ['usize'])[:2] for t in h[6:].split())
            elif h.startswith('forward '):
                forward = h[8:].split()
            elif h.startswith('okfrom '):
                # every Ok(..) the function builds itself must be made of values it got from one of these callees
                okfrom = h[7:].split()
            elif h.startswith('live '):
                # callee parameter => expression it must be given (the live value of a local), e.g. pre_defines=&defines
                for kv in h[5:].split():
                    k_, v_ = kv.split('=')
                    live[k_] = v_
            elif h.startswith('guard '):
                guard_re = re.compile(h[6:].strip().strip('/'))
            elif h.startswith('callee '):
                m = re.match(r'callee\s+(\w+)\s*@\s*([^|]+)\|\s*([^=]+?)\s*=>\s*(.*)$', h)
                if not m:
                    raise ExtractError('%s:%d: bad callee line' % (base, ln))
                cs, cf = self._locate_fn(m.group(2).strip(), m.group(3).strip(), m.group(1))
                callees[m.group(1)] = dict(params=self._param_names(cs, cf), ghost=m.group(4).strip())
            else:
                raise ExtractError('%s:%d: unknown callslice line %s' % (base, ln, h))
        lo, hi = f['open'] + 1, f['close']
        body_m = s.masked[lo:hi]
        # tracked parameters must be immutable in the real function
        rebinds = []
        for t in track:
            for m in re.finditer(r'\b%s\b\s*(=(?![=>])|\+=|-=)' % t, body_m):
                raise ExtractError('%s: tracked parameter %s is assigned in %s; the slice would be unsound' % (where, t, name))
            for m in re.finditer(r'\blet\s+(?:mut\s+)?%s\b' % t, body_m):
                # a top-level `let T = <simple expression>;` is part of the slice language: kept verbatim, in order
                k_ = lo + m.start()
                semi = s.masked.find(';', k_)
                stmt = re.sub(r'\s+', ' ', s.text[k_:semi + 1])
                mm_ = re.match(r'let (?:mut )?%s\s*(?::\s*\w+\s*)?=\s*(\w+(?:\s*[+-]\s*\d+)?|\d+|true|false);$' % t, stmt)
                if mm_ and s._depth(lo, k_) == 0 and s.masked[lo:k_].count('(') == s.masked[lo:k_].count(')'):
                    rebinds.append((k_, stmt))
                    continue
                raise ExtractError('%s: tracked parameter %s is shadowed in %s' % (where, t, name))
            for c in s.closures_in(lo, hi):
                if re.search(r'\b%s\b' % t, s.masked[c['start']:c['params_end']]):
                    raise ExtractError('%s: tracked parameter %s is shadowed by a closure parameter in %s' % (where, t, name))
            # pattern bindings (match arms / if let / for) that rebind the name
            for m in re.finditer(r'\b(?:Some|Ok|Err)\s*\(\s*(?:mut\s+|ref\s+)?%s\s*\)|\bfor\s+%s\s+in\b' % (t, t), body_m):
                raise ExtractError('%s: tracked parameter %s is rebound by a pattern in %s' % (where, t, name))
        events = []
        if guard_re:
            for m in guard_re.finditer(body_m):
                k = lo + m.start()
                o = s.masked.find('{', k)
                c = match_close(s.masked, o)
                # an `else` continuation would make the guard more than a guard
                tail = s.masked[c + 1:c + 20].lstrip()
                if tail.startswith('else'):
                    raise ExtractError('%s: depth guard has an else branch' % where)
                events.append((k, 'guard', (k, c + 1)))
        for cname, info in callees.items():
            for m in re.finditer(r'(?<![\w.:])%s\s*(?:::<[^>]*>)?\s*\(' % cname, body_m):
                k = lo + m.start()
                o = lo + m.end() - 1
                c = match_close(s.masked, o)
                args = self._split_top(s.text[o + 1:c], s.masked[o + 1:c])
                args = [re.sub(r'//[^\n]*', '', a).strip() for a in args]
                if len(args) != len(info['params']):
                    raise ExtractError('%s: call to %s has %d args, signature has %d' % (where, cname, len(args), len(info['params'])))
                events.append((k, 'call', (cname, dict(zip(info['params'], args)), c + 1)))
        for k_, stmt in rebinds:
            events.append((k_, 'rebind', stmt))
        if okfrom is not None:
            bound = set()
            for cname in okfrom:
                for m in re.finditer(r'\blet\s+(\(?[\w\s,]+\)?)\s*=\s*(?:[\w:]+::)?%s\s*\(' % cname, body_m):
                    bound |= set(re.findall(r'\w+', m.group(1))) - {'mut'}
            for m in re.finditer(r'(?<![\w.:])Ok\s*\(', body_m):
                o = lo + m.end() - 1
                c = match_close(s.masked, o)
                inner = set(re.findall(r'[A-Za-z_]\w*', s.masked[o + 1:c]))
                ok = bool(inner) and inner <= bound
                events.append((lo + m.start(), 'okfrom', (ok, re.sub(r'\s+', ' ', s.text[lo + m.start():c + 1])[:80])))
        events.sort(key=lambda e: e[0])
        self.rewrites.append(('R-slice recursion skeleton of %s: %d guard(s), %d call(s) kept, everything else dropped' % (
            name, len([e for e in events if e[1] == 'guard']), len([e for e in events if e[1] == 'call'])), where, 1))
        simple = re.compile(r'^(?:&?\w+|\d+|true|false|\w+\s*[+-]\s*\d+)$')
        for k, kind, payload in events:
            depth = s._depth(lo, k)
            # parenthesis nesting (e.g. inside a closure argument) also counts as nested
            pre = s.masked[lo:k]
            nested = depth != 0 or pre.count('(') != pre.count(')')
            ln = s.line_of(k)
            org = ('repo', s.path, ln)
            if kind == 'rebind':
                self.lines.append(Line(payload, org, name + '_slice'))
                continue
            if kind == 'okfrom':
                ok, txt = payload
                self.lines.append(Line('    if vx_nondet() { assert(%s); }   // %s' % ('true' if ok else 'false', txt.replace('\n', ' ')),
                                       ('spec', base, tline, name, 'C20.result-built-without-%s' % '-or-'.join(okfrom), ['C20', 'C10', 'C11']), name + '_slice'))
                continue
            if kind == 'guard':
                a, b = payload
                text = s.text[a:b]
                if nested:
                    text = 'if vx_nondet() { ' + text + ' }'
                for l in text.split('\n'):
                    self.lines.append(Line(l, org, name + '_slice'))
            else:
                cname, amap, _ = payload
                info = callees[cname]
                kept = []
                # arguments are bound by the callee's real parameter NAMES and handed to the
                # slice in the canonical order of the track list; a tracked parameter the real
                # callee does not have cannot be forwarded: it becomes an arbitrary value
                for pn in track:
                    if pn in amap:
                        a = amap[pn]
                        if not simple.match(a):
                            raise ExtractError('%s: argument %r for %s.%s is outside the slice language' % (where, a, cname, pn))
                        kept.append(a)
                    else:
                        kept.append('vx_any_%s()' % ttype[pn])
                call = '%s_slice(%s%s)' % (cname, ', '.join(kept), (', ' + info['ghost']) if info['ghost'] else '')
                self.lines.append(Line(('if vx_nondet() {' if nested else '{') + '   // ' + where.split(':')[0] + ':%d' % ln, org, name + '_slice'))
                for pn in forward:
                    self.lines.append(Line('    assert(%s == %s);' % (amap.get(pn, 'vx_any_%s()' % ttype[pn]), pn),
                                           ('spec', base, tline, name, 'C18.%s-forwarded-to-%s' % (pn, cname), ['C18']), name + '_slice'))
                for pn, want in live.items():
                    if pn in amap:
                        got = re.sub(r'\s+', '', amap[pn])
                        self.lines.append(Line('    assert(%s);   // %s = %s' % ('true' if got == want else 'false', pn, got),
                                               ('spec', base, tline, name, 'C05.live-table-passed-to-%s' % cname, ['C05', 'C10']), name + '_slice'))
                self.lines.append(Line('    match %s { Err(e) => { if vx_nondet() { return Err(e); } } Ok(_) => {} } }' % call, org, name + '_slice'))

    # ---------------------------------------------------------------------
    def _quote_text(self, s, f, k):
        """token text of the k-th `quote! { .. }` of function f (source order)"""
        qs = []
        for m in re.finditer(r'\bquote!\s*\{', s.masked[f['open']:f['close']]):
            o = f['open'] + m.end() - 1
            qs.append((o, match_close(s.masked, o)))
        if k >= len(qs):
            raise ExtractError('%s: fn has %d quote! blocks, %d requested' % (s.path, len(qs), k))
        o, c = qs[k]
        return s.text[o + 1:c], o + 1

    def _d_quote(self, rest, block, base, tline):
        """R-quote: instantiate a quote! template of sv-parser-macros.
        //@bind #var => TEXT | quote K | each quote K with #v in A B C"""
        parts = [p.strip() for p in rest.split('|')]
        file, fn, k = parts[0], parts[1], int(parts[2])
        as_name = None
        for p_ in parts[3:]:
            if p_.startswith('as '):
                as_name = p_[3:].strip()
        s = self.src(file)
        f = s.find_fn(fn)
        binds = []
        subs = []
        for ln, l in block:
            st = l.strip()
            if st.startswith('//@bind '):
                m = re.match(r'//@bind\s+(#\w+)\s*=>\s*(.*)$', st)
                binds.append((m.group(1), m.group(2).strip()))
            elif st.startswith('//@sub '):
                subs.append(self._parse_sub(st[3:].strip()))
            elif st:
                raise ExtractError('%s:%d: unknown line in quote block' % (base, ln))

        def inst(text, env):
            # longest names first so that #name does not clobber #name_x
            for var, val in sorted(env, key=lambda b: -len(b[0])):
                if var not in text:
                    continue
                m = re.match(r'each quote (\d+) with (#\w+) in (.*)$', val)
                if m:
                    t, _ = self._quote_text(s, f, int(m.group(1)))
                    rep = '\n'.join(inst(t, [(m.group(2), v), (var, '')] + [b for b in env if b[0] != var]) for v in m.group(3).split())
                elif re.match(r'quote \d+$', val):
                    t, _ = self._quote_text(s, f, int(val.split()[1]))
                    rep = inst(t, [b for b in env if b[0] != var])
                else:
                    rep = val
                text = re.sub(re.escape(var) + r'\b', lambda _m: rep, text)
            return text
        text, off = self._quote_text(s, f, k)
        where = '%s:%d' % (file, s.line_of(off))
        text = inst(text, binds)
        left = re.findall(r'#\w+', text)
        if left:
            raise ExtractError('%s: unbound template variables %s' % (where, sorted(set(left))))
        text = self.apply_subs(self.apply_rules(text, where), subs, where)
        self.rewrites.append(('R-quote instantiate quote! #%d of %s with %s' % (k, fn, dict(binds)), where, 1))
        if as_name:
            # register the instantiated template as a virtual source: //@fn, //@implhdr ... can
            # then splice contracts into the generated impls exactly as for ordinary files
            self.sources['quote:' + as_name] = Source(file, text, line_base=s.line_of(off) - 1)
        else:
            self.emit_repo(s, off, off + 1, text=text, fn='quote')

    def _d_flaguse(self, rest, block, base, tline):
        """frame check: every occurrence of FLAG in the function body lies in the guard of one of
        the listed arms or in the argument list of one of the listed callees; anything else is an
        unclassified use -> the unit is undecided (never a violation by itself)"""
        parts = [p.strip() for p in rest.split('|')]
        file, container, fn, flag = parts[:4]
        s, f = self._locate_fn(file, container, fn)
        lo, hi = f['open'] + 1, f['close']
        spans = []
        for ln, l in block:
            st = l.strip()
            if st.startswith('//@inguard '):
                pat = st[11:].strip()
                for a in s.arms_in(lo, hi):
                    if norm(a['pat']) == norm(pat) and a['guard_span']:
                        spans.append(a['guard_span'])
            elif st.startswith('//@inargs '):
                for cname in st[10:].split():
                    for m in re.finditer(r'(?<![\w.:])%s\s*\(' % cname, s.masked[lo:hi]):
                        o = lo + m.end() - 1
                        spans.append((o, match_close(s.masked, o)))
        bad = []
        n = 0
        for m in re.finditer(r'\b%s\b' % re.escape(flag), s.masked[lo:hi]):
            k = lo + m.start()
            n += 1
            if not any(a <= k < b for a, b in spans):
                bad.append(s.line_of(k))
        if bad:
            # not a violation by itself and not a reason to hide real failures: remembered, and the
            # unit is undecided if nothing else fails
            self.soft_undecided.append(dict(msg='%s: unclassified use of `%s` in %s at line(s) %s' % (file, flag, fn, bad), props=['C18']))
        self.rewrites.append(('frame: %d uses of %s in %s, all in listed guards/call arguments' % (n, flag, fn), '%s:%d' % (file, s.line_of(lo)), 1))
        self.emit('// flaguse %s in %s: %d classified occurrences' % (flag, fn, n), ('tmpl', base, tline))

    def _d_skipguard(self, rest, block, base, tline):
        """shape obligation on the event loop of preprocess_str (part of A-glue made checkable): the statement
        `if skip { continue; }` stands at the top level of the loop body, after the match that toggles `skip` and
        before every other match on the event, so that no arm is reached for a skipped event."""
        parts = [p.strip() for p in rest.split('|')]
        file, container, fn = parts[:3]
        s, f = self._locate_fn(file, container, fn)
        loops = [lp for lp in s.loops_in(f['open'] + 1, f['close']) if lp['kind'] == 'for' and re.search(r'\.event\(\)', s.masked[lp['kw']:lp['open']])]
        label = 'C04.glue.skipped-events-reach-no-arm'
        org = ('spec', base, tline, fn, label, ['C04'])
        if len(loops) != 1:
            self.soft_undecided.append(dict(msg='%s: event loop of %s not found' % (file, fn), props=['C04']))
            return
        lo, hi = loops[0]['open'] + 1, loops[0]['close']
        # top-level statements of the loop body
        stmts = []
        i = lo
        start = None
        while i < hi:
            c = s.masked[i]
            if start is None and not c.isspace():
                start = i
            if c in '([{':
                e = match_close(s.masked, i)
                if c == '{' and start is not None:
                    # a block-like statement (match / if / for) ends at its closing brace unless followed by else / ; / .
                    j = e + 1
                    while j < hi and s.masked[j].isspace():
                        j += 1
                    if not (s.masked[j:j + 4] == 'else' or s.masked[j] in ';.?'):
                        stmts.append((start, e + 1))
                        start = None
                i = e + 1
                continue
            if c == ';' and start is not None:
                stmts.append((start, i + 1))
                start = None
            i += 1
        norm_ = [re.sub(r'\s+', '', s.masked[a:b]) for a, b in stmts]
        guards = [k for k, t in enumerate(norm_) if t == 'ifskip{continue;}']
        matches = [k for k, t in enumerate(norm_) if t.startswith('matchn')]
        ok = (len(guards) == 1 and len(matches) >= 2 and matches[0] < guards[0] and all(m > guards[0] for m in matches[1:])
              and all(k in guards or k in matches for k in range(len(norm_))))
        toggles = len(matches) >= 1 and 'skip_nodes.contains' in norm_[matches[0]]
        self.rewrites.append(('shape: event loop of %s has %d top-level statements; skip guard at %s, matches at %s' % (fn, len(norm_), guards, matches),
                              '%s:%d' % (file, s.line_of(lo)), 1))
        self.lines.append(Line('proof fn glue_skip_guard() {', ('tmpl', base, tline)))
        self.lines.append(Line('    assert(%s);   // `if skip { continue; }` between the skip-toggling match and the arms' % ('true' if (ok and toggles) else 'false'), org, 'glue_skip_guard'))
        self.lines.append(Line('}', ('tmpl', base, tline)))

    def _d_macroarm(self, rest, block, base, tline):
        mparts = [p.strip() for p in rest.split('|')]
        file, name, k = mparts[:3]
        as_name = None
        for p_ in mparts[3:]:
            if p_.startswith('as '):
                as_name = p_[3:].strip()
        wrap = None
        nb = []
        for ln_, l_ in block:
            if l_.strip().startswith('//@wrap '):
                wrap = l_.strip()[8:]
            else:
                nb.append((ln_, l_))
        block = nb
        s = self.src(file)
        a, b = s.find_item('macro_rules', name)
        o = s.masked.find('{', a)
        c = match_close(s.masked, o)
        # arms: ( matcher ) => { transcriber } ;
        i = o + 1
        arms = []
        while True:
            while i < c and s.masked[i] in ' \t\r\n;':
                i += 1
            if i >= c:
                break
            me = match_close(s.masked, i)
            j = s.masked.find('=>', me)
            t = j + 2
            while s.masked[t] in ' \t\r\n':
                t += 1
            te = match_close(s.masked, t)
            arms.append((i, me, t, te))
            i = te + 1
        k = int(k)
        if k >= len(arms):
            raise ExtractError('%s: macro %s has %d arms' % (file, name, len(arms)))
        _, _, t, te = arms[k]
        where = '%s:%d' % (file, s.line_of(t))
        text = self.apply_subs(self.apply_rules(s.text[t + 1:te], where), self._simple_subs(block), where)
        self.rewrites.append(('R-macro transcriber of %s arm %d' % (name, k), where, 1))
        if as_name:
            vt = (wrap or 'fn %s()' % as_name) + ' {' + text + '}\n'
            self.sources['macro:' + as_name] = Source(file, vt, line_base=s.line_of(t + 1) - 1)
        else:
            self.emit_repo(s, t + 1, te, text=text, fn='macro')
