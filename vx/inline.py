"""R-inline: a call of a helper function of the same source file that the unit does not know (it was introduced
after the unit was written, e.g. by `extract function`) is replaced by the helper's body in a block:

    h(a0, a1)        ->   { let vx_i0 = a0; let vx_i1 = a1; let p0 = vx_i0; let p1 = vx_i1; BODY }
    self.h(a0)       ->   same, the helper being a method of the same impl (receiver must be `self`)
    Type::h(a0)      ->   same, for an associated function without receiver

The arguments are evaluated once, in order, before the body (as in a call); the rewrite is only made when the helper has
plain `name: Type` parameters and its body contains no `return`, `?`, `break`, `continue`, `await` and no macro that could
hide one (only `matches!`, `vec!`, `format!`, `assert!`-family are let through), so that leaving the body is leaving the
block.  The block is put on ONE line so that the line numbers of the file do not move."""
import re
from .rsx import mask, match_close, Source, ExtractError

OK_MACROS = {'matches', 'vec', 'format', 'assert', 'assert_eq', 'assert_ne', 'debug_assert', 'unreachable', 'panic', 'write', 'writeln'}


def _split_top(text, masked):
    parts, d, cur = [], 0, 0
    for i, c in enumerate(masked):
        if c in '([{<':
            d += 1
        elif c in ')]}>':
            if not (c == '>' and i > 0 and masked[i - 1] in '-='):
                d -= 1
        elif c == ',' and d == 0:
            parts.append(text[cur:i])
            cur = i + 1
    if masked[cur:].strip():
        parts.append(text[cur:])
    return [p.strip() for p in parts]


def _fns(text, m):
    """all fn items: dict(name, kw, popen, pclose, open, close, self_kind, params, impl)"""
    out = []
    for mm in re.finditer(r'\bfn\s+(\w+)', m):
        k = mm.start()
        j = m.find('(', mm.end())
        lt = m.find('<', mm.end())
        if 0 <= lt < j and m[mm.end():lt].strip() == '':
            d, q = 0, lt
            while q < len(m):
                if m[q] == '<':
                    d += 1
                elif m[q] == '>' and m[q - 1] not in '-=':
                    d -= 1
                    if d == 0:
                        break
                q += 1
            j = m.find('(', q)
        if j < 0:
            continue
        try:
            pc = match_close(m, j)
        except ExtractError:
            continue
        q = pc + 1
        d = 0
        op = None
        while q < len(m):
            c = m[q]
            if c in '([':
                try:
                    q = match_close(m, q)
                except ExtractError:
                    break
            elif c == '{':
                op = q
                break
            elif c == ';':
                break
            q += 1
        if op is None:
            continue
        try:
            cl = match_close(m, op)
        except ExtractError:
            continue
        ps = _split_top(text[j + 1:pc], m[j + 1:pc])
        self_kind = None
        params = []
        ok = True
        for p_ in ps:
            if re.fullmatch(r'&?\s*(?:\'\w+\s+)?(?:mut\s+)?self', p_):
                self_kind = p_
                continue
            pm = re.fullmatch(r'(?:mut\s+)?(\w+)\s*:\s*(.+)', p_, re.S)
            if not pm:
                ok = False
                break
            params.append(pm.group(1))
        # item start: attributes / visibility in front of `fn`
        ls = text.rfind('\n', 0, k) + 1
        head = text[ls:k]
        attrs = ''
        q = ls
        while True:
            pl = text.rfind('\n', 0, q - 1) + 1
            line = text[pl:q].strip()
            if line.startswith('#[') or line.startswith('///'):
                attrs = line + '\n' + attrs
                q = pl
                if pl == 0:
                    break
            else:
                break
        out.append(dict(name=mm.group(1), kw=k, popen=j, pclose=pc, open=op, close=cl, self_kind=self_kind, params=params, ok=ok,
                        head=head, attrs=attrs))
    return out


def _impl_of(m, text, pos):
    """simple name of the impl target enclosing pos (None at top level), and its extent"""
    best = None
    for mm in re.finditer(r'\bimpl\b[^{;]*\{', m):
        o = mm.end() - 1
        c = match_close(m, o)
        if o < pos < c:
            hdr = text[mm.start():o]
            tm = re.search(r'(?:for\s+)?(\w+)\s*(?:<[^{]*>)?\s*(?:where\b[^{]*)?$', hdr.strip())
            name = None
            hm = re.search(r'\bfor\s+(\w+)', hdr)
            if hm:
                name = hm.group(1)
            else:
                hm = re.search(r'\bimpl\s*(?:<[^>]*>)?\s*(\w+)', hdr)
                name = hm.group(1) if hm else None
            if best is None or o > best[1]:
                best = (name, o, c)
    return best


def defined_names(text):
    """free functions by plain name, associated functions / methods as Type::name (of the text a unit was assembled to)"""
    m = mask(text)
    out = set()
    for f in _fns(text, m):
        impl_ = _impl_of(m, text, f['kw'])
        out.add(f['name'] if impl_ is None else '%s::%s' % (impl_[0], f['name']))
    return out


def inline_helpers(text, known, path=''):
    log = []
    for _round in range(3):
        m = Source(path, text).masked       # comments, strings and #[cfg(test)] / #[cfg(kani)] items blanked
        try:
            fns = _fns(text, m)
        except ExtractError:
            break
        by_name = {}
        for f in fns:
            im_ = _impl_of(m, text, f['kw'])
            by_name.setdefault((im_[0] if im_ else None, f['name']), []).append(f)
        cands = {}
        for (_im, name), fl in by_name.items():
            if len(fl) != 1:
                continue
            f = fl[0]
            impl_ = _impl_of(m, text, f['kw'])
            # `known` holds the free functions the unit defines by plain name and its associated functions as Type::name
            if (impl_ is None and name in known) or (impl_ is not None and ('%s::%s' % (impl_[0], name)) in known):
                continue
            if not f['ok'] or 'extern' in f['head'] or 'const fn' in f['head'] or 'async' in f['head']:
                continue
            if any(a.startswith('#[') and not re.match(r'#\[(inline|allow|doc|must_use|cfg_attr\(kani)', a) for a in f['attrs'].split('\n') if a):
                continue
            bm = m[f['open'] + 1:f['close']]
            if f['close'] - f['open'] > 2500 or re.search(r'\b(return|break|continue|await|yield)\b|\?', bm):
                continue
            if any(x not in OK_MACROS for x in re.findall(r'\b(\w+)!\s*[\(\[\{]', bm)):
                continue
            if re.search(r'\b%s\s*\(' % re.escape(name), bm):      # recursive
                continue
            cands[(_im, name)] = f
        if not cands:
            break
        # call sites (outside the helper's own item), last first
        sites = []
        for (_im, name), f in cands.items():
            impl = _impl_of(m, text, f['kw'])
            pats = []
            if impl is None:
                pats.append((r'(?<![\w.:])%s\s*\(' % re.escape(name), 'free'))
            elif f['self_kind'] is not None:
                pats.append((r'\bself\s*\.\s*%s\s*\(' % re.escape(name), 'self'))
            else:
                pats.append((r'\b(?:Self|%s)\s*::\s*%s\s*\(' % (re.escape(impl[0] or 'Self'), re.escape(name)), 'assoc'))
            for pat, kind in pats:
                for cm in re.finditer(pat, m):
                    if f['kw'] <= cm.start() <= f['close']:
                        continue
                    if m[max(0, cm.start() - 3):cm.start()].strip().endswith('fn'):
                        continue
                    if kind == 'self':
                        # only inside an impl of the same type (inherent or trait impl), where `self` is that type
                        here = _impl_of(m, text, cm.start())
                        if impl is None or here is None or here[0] != impl[0]:
                            continue
                    o = cm.end() - 1
                    c = match_close(m, o)
                    args = _split_top(text[o + 1:c], m[o + 1:c])
                    if len(args) != len(f['params']):
                        continue
                    sites.append((cm.start(), c + 1, (_im, name), args))
        if not sites:
            break
        # drop nested sites (inner ones are handled in the next round)
        sites.sort()
        flat = []
        for s_ in sites:
            if flat and s_[0] < flat[-1][1]:
                continue
            flat.append(s_)
        bodies = {}
        for name, f in cands.items():
            # (name is the (impl, fn) key) the body with its comments cut out by position (the mask has comments AND string contents blank: a
            # position is inside a comment iff it is blank in the mask, not blank in the text and not inside quotes)
            raw = text[f['open'] + 1:f['close']]
            body = re.sub(r'/\*.*?\*/', ' ', raw, flags=re.S)
            body = '\n'.join(re.sub(r'(?<![:"\'])//[^\n]*', '', l) for l in body.split('\n'))
            bodies[name] = re.sub(r'\s*\n\s*', ' ', body).strip()
        for a, b, name, args in reversed(flat):
            f = cands[name]
            body = bodies[name]
            lets = ''.join('let vx_i%d = %s; ' % (k, re.sub(r'\s*\n\s*', ' ', x)) for k, x in enumerate(args))
            lets += ''.join('let %s = vx_i%d; ' % (p_, k) for k, p_ in enumerate(f['params']))
            nl = text[a:b].count('\n')
            text = text[:a] + '{ ' + lets + body + ' }' + '\n' * nl + text[b:]
            log.append('%s: call of helper %s at offset %d replaced by its body' % (path, name[1] if isinstance(name, tuple) else name, a))
    return text, log
