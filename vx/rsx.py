"""rsx - comment/string aware extraction of items from Rust source text.

Everything here works on (text, masked) pairs: `masked` has the same length as `text`
with the contents of comments, string literals and char literals blanked, so brace
matching and token regexes cannot be fooled; the extracted text is always cut from the
original.  No Rust parser is needed: items are located by their header tokens and
delimited by bracket matching.
"""
import re


class ExtractError(Exception):
    """anchor not found / item does not parse -> the unit is undecided (exit 2)"""


def mask(src):
    out = list(src)
    i, n = 0, len(src)

    def blank(a, b):
        for k in range(a, b):
            if out[k] != '\n':
                out[k] = ' '

    while i < n:
        c = src[i]
        if src.startswith('//', i):
            j = src.find('\n', i)
            j = n if j < 0 else j
            blank(i, j)
            i = j
        elif src.startswith('/*', i):
            depth, j = 1, i + 2
            while j < n and depth:
                if src.startswith('/*', j):
                    depth += 1
                    j += 2
                elif src.startswith('*/', j):
                    depth -= 1
                    j += 2
                else:
                    j += 1
            blank(i, j)
            i = j
        elif c == '"' or (c in 'rb' and re.match(r'(?:b?r#*"|b")', src[i:i + 8]) and (i == 0 or not (src[i - 1].isalnum() or src[i - 1] == '_'))):
            m = re.match(r'b?r(#*)"', src[i:])
            if m:
                close = '"' + m.group(1)
                j = src.find(close, i + m.end())
                j = n if j < 0 else j + len(close)
                blank(i + m.end(), j - len(close))
                i = j
            else:
                j = i + (2 if c == 'b' else 1)
                while j < n and src[j] != '"':
                    j += 2 if src[j] == '\\' else 1
                blank(i + (2 if c == 'b' else 1), j)
                i = j + 1
        elif c == "'":
            # char literal or lifetime
            m = re.match(r"'(?:\\(?:x[0-9a-fA-F]{2}|u\{[0-9a-fA-F_]+\}|.)|[^\\'])'", src[i:])
            if m:
                blank(i + 1, i + m.end() - 1)
                i += m.end()
            else:
                i += 1
        else:
            i += 1
    return ''.join(out)


OPEN = {'(': ')', '[': ']', '{': '}'}
CLOSE = {')', ']', '}'}


def match_close(masked, i):
    """masked[i] is an opening bracket; return index of its partner."""
    stack = []
    n = len(masked)
    j = i
    while j < n:
        c = masked[j]
        if c in OPEN:
            stack.append(OPEN[c])
        elif c in CLOSE:
            if not stack or stack[-1] != c:
                raise ExtractError('unbalanced bracket at offset %d' % j)
            stack.pop()
            if not stack:
                return j
        j += 1
    raise ExtractError('unterminated bracket at offset %d' % i)


def norm(s):
    """whitespace-insensitive normal form used to compare anchors"""
    return re.sub(r'\s+', '', s)


class Source:
    def __init__(self, path, text, line_base=0):
        self.path = path
        self.text = text
        self.line_base = line_base
        self.masked = mask(text)
        # blank out #[cfg(test)] modules and items
        for m in list(re.finditer(r'#\[cfg\((?:test|kani)\)\]', self.masked)):
            j = self.masked.find('{', m.end())
            k = self.masked.find(';', m.end())
            if j < 0 or (0 <= k < j):
                end = k + 1
            else:
                end = match_close(self.masked, j) + 1
            self.masked = self.masked[:m.start()] + re.sub(r'[^\n]', ' ', self.masked[m.start():end]) + self.masked[end:]

    def line_of(self, off):
        return self.line_base + self.text.count('\n', 0, off) + 1

    # ---- containers -------------------------------------------------------
    def find_container(self, header, lo=0, hi=None):
        """`impl ... ` / `mod x` / `trait X` block whose header (text up to '{') equals
        `header` modulo whitespace.  Returns (start, open_brace, close_brace)."""
        hi = len(self.text) if hi is None else hi
        sub = None
        if header.startswith('~'):
            # `~TEXT`: the unique impl/mod/trait whose header contains TEXT (modulo whitespace)
            sub = norm(header[1:])
            header = 'impl ' + header[1:]
        want = norm(header)
        kw = re.match(r'\s*(?:pub(?:\([a-z]+\))?\s+)?(unsafe\s+)?(impl|mod|trait)\b', header)
        if not kw:
            raise ExtractError('bad container header %r' % header)
        found = []
        for m in re.finditer(r'\b(?:unsafe\s+)?(?:impl|mod|trait)\b', self.masked[lo:hi]):
            s = lo + m.start()
            j = self.masked.find('{', s)
            if j < 0 or j >= hi:
                continue
            semi = self.masked.find(';', s)
            if 0 <= semi < j:
                continue
            head = self.text[s:j]
            head_n = norm(re.sub(r'^\s*pub(\([a-z]+\))?\s+', '', head))
            if (sub is not None and sub in head_n) or (sub is None and (head_n == want or head_n == norm(re.sub(r'^\s*pub(\([a-z]+\))?\s+', '', header)))):
                found.append((s, j, match_close(self.masked, j)))
        if len(found) != 1:
            raise ExtractError('%s: container %r found %d times' % (self.path, header, len(found)))
        return found[0]

    # ---- functions --------------------------------------------------------
    def find_fn(self, name, lo=0, hi=None, depth0_only=True):
        """returns dict(start, fn_kw, sig_end(open brace), close) of `fn name`"""
        hi = len(self.text) if hi is None else hi
        found = []
        for m in re.finditer(r'\bfn\s+%s\b' % re.escape(name), self.masked[lo:hi]):
            k = lo + m.start()
            if depth0_only and self._depth(lo, k) != 0:
                continue
            j = self._body_open(k, hi)
            if j is None:
                continue
            found.append((k, j))
        if len(found) != 1:
            raise ExtractError('%s: fn %s found %d times in range' % (self.path, name, len(found)))
        k, j = found[0]
        close = match_close(self.masked, j)
        start = self._item_start(k, lo)
        return dict(start=start, kw=k, open=j, close=close)

    def _depth(self, lo, k):
        d = 0
        for c in self.masked[lo:k]:
            if c == '{':
                d += 1
            elif c == '}':
                d -= 1
        return d

    def _body_open(self, k, hi):
        """first '{' after position k that is not nested in () [] <> ; None if ';' first"""
        j = k
        d = 0
        while j < hi:
            c = self.masked[j]
            if c in '([':
                j = match_close(self.masked, j)
            elif c == '{' and d == 0:
                return j
            elif c == ';' and d == 0:
                return None
            j += 1
        return None

    def _item_start(self, k, lo):
        """walk back from the `fn`/`struct` keyword over qualifiers, attributes and doc
        comments; returns the start offset of the item (beginning of a line)."""
        # start of the line holding the keyword
        ls = self.text.rfind('\n', 0, k) + 1
        ls = max(ls, lo)
        while True:
            pe = ls - 1
            if pe <= lo:
                break
            ps = self.text.rfind('\n', 0, pe) + 1
            ps = max(ps, lo)
            line = self.text[ps:pe].strip()
            if line.startswith('#[') or line.startswith('///') or line.startswith('#!['):
                ls = ps
            else:
                break
        return ls

    # ---- struct / enum / const / type / macro_rules ------------------------
    def find_item(self, kind, name, lo=0, hi=None):
        hi = len(self.text) if hi is None else hi
        if kind == 'macro_rules':
            pat = r'\bmacro_rules!\s*%s\b' % re.escape(name)
        else:
            pat = r'\b%s\s+%s\b' % (kind, re.escape(name))
        found = []
        for m in re.finditer(pat, self.masked[lo:hi]):
            k = lo + m.start()
            j = k
            end = None
            while j < hi:
                c = self.masked[j]
                if c in '([{':
                    e = match_close(self.masked, j)
                    if c == '{':
                        end = e + 1
                        # tuple-less struct with braces ends here; `macro_rules! x { }` too
                        break
                    j = e
                elif c == ';':
                    end = j + 1
                    break
                j += 1
            if end is None:
                continue
            # a tuple struct `struct X(..);` : continue to ';'
            found.append((self._item_start(k, lo), end))
        if len(found) != 1:
            raise ExtractError('%s: %s %s found %d times' % (self.path, kind, name, len(found)))
        return found[0]

    # ---- match arms -------------------------------------------------------
    def arms_in(self, lo, hi):
        """all match arms (at any nesting) in [lo,hi): yields dicts with pattern text,
        guard text (or None), body span (inner text if braced), full span."""
        res = []
        for m in re.finditer(r'\bmatch\b', self.masked[lo:hi]):
            k = lo + m.end()
            j = self._body_open(k, hi)
            if j is None:
                continue
            close = match_close(self.masked, j)
            res.extend(self._arms_of(j, close))
        return res

    def _arms_of(self, open_, close):
        arms = []
        i = open_ + 1
        while True:
            # skip whitespace / attributes
            while i < close and self.masked[i] in ' \t\r\n,':
                i += 1
            if i >= close:
                break
            # pattern up to `=>` at depth 0
            j = i
            arrow = None
            while j < close:
                c = self.masked[j]
                if c in '([{':
                    j = match_close(self.masked, j)
                elif self.masked.startswith('=>', j):
                    arrow = j
                    break
                j += 1
            if arrow is None:
                break
            head = self.text[i:arrow]
            hm = self.masked[i:arrow]
            g = re.search(r'\bif\b', hm)
            # `if` inside a pattern only occurs as guard at depth 0
            guard = None
            pat = head
            if g:
                # ensure depth 0
                d = 0
                ok = None
                for mm in re.finditer(r'\bif\b', hm):
                    pre = hm[:mm.start()]
                    if pre.count('(') == pre.count(')') and pre.count('[') == pre.count(']') and pre.count('{') == pre.count('}'):
                        ok = mm
                        break
                if ok:
                    pat = head[:ok.start()]
                    guard = head[ok.end():].strip()
                    gspan = (i + ok.end(), arrow)
            b = arrow + 2
            while self.masked[b] in ' \t\r\n':
                b += 1
            if self.masked[b] == '{':
                e = match_close(self.masked, b)
                body = (b + 1, e)
                braced = True
                end = e + 1
            else:
                # expression arm: up to ',' at depth 0 or the closing brace
                j = b
                while j < close:
                    c = self.masked[j]
                    if c in '([{':
                        j = match_close(self.masked, j)
                    elif c == ',':
                        break
                    j += 1
                body = (b, j)
                braced = False
                end = j
            arms.append(dict(pat=pat.strip(), guard=guard, guard_span=(gspan if guard else None),
                             body=body, braced=braced, start=i, end=end))
            i = end
        return arms

    # ---- loops ------------------------------------------------------------
    def loops_in(self, lo, hi):
        """positions of loop headers in [lo,hi) in source order:
        list of dict(kw_start, kind, open(brace), close)"""
        res = []
        for m in re.finditer(r'\b(for|while|loop)\b', self.masked[lo:hi]):
            k = lo + m.start()
            kind = m.group(1)
            if kind == 'for':
                # `for<'a>` HRTB or `impl X for Y` are not loops: require ` in ` before '{'
                j = self._body_open(k + 3, hi)
                if j is None or not re.search(r'\bin\b', self.masked[k:j]):
                    continue
            else:
                j = self._body_open(k + len(kind), hi)
                if j is None:
                    continue
            res.append(dict(kw=k, kind=kind, open=j, close=match_close(self.masked, j)))
        return res

    # ---- closures ----------------------------------------------------------
    def closures_in(self, lo, hi):
        """`|args| body` closures in [lo,hi) in source order: dict(start, params_end, ...)."""
        res = []
        i = lo
        while i < hi:
            c = self.masked[i]
            if c == '|' and self.masked[i:i + 2] != '||':
                # closure start if previous significant char is one of ( , = or `move`
                p = i - 1
                while p >= lo and self.masked[p] in ' \t\r\n':
                    p -= 1
                prev = self.masked[p] if p >= lo else '('
                if prev in '(,=' or self.masked[max(lo, p - 3):p + 1] == 'move':
                    j = self.masked.find('|', i + 1)
                    if j < 0 or j >= hi:
                        break
                    # extent of the closure body: a block, or an expression up to the next
                    # `,` / closing bracket at depth 0
                    b = j + 1
                    while b < hi and self.masked[b] in ' \t\r\n':
                        b += 1
                    if self.masked[b] == '{':
                        be = match_close(self.masked, b) + 1
                        braced = True
                    else:
                        be = b
                        while be < hi:
                            ch = self.masked[be]
                            if ch in '([{':
                                be = match_close(self.masked, be)
                            elif ch in ',)]}' or ch == ';':
                                break
                            be += 1
                        braced = False
                    res.append(dict(start=i, params_end=j + 1, body_start=b, body_end=be, braced=braced))
                    i = j + 1
                    continue
            i += 1
        return res
