use vstd::prelude::*;
verus! {

#[verifier::external_body]
pub struct RefNode<'a> { _p: &'a u8 }

pub uninterp spec fn children(n: RefNode) -> Seq<RefNode>;
pub uninterp spec fn height(n: RefNode) -> nat;
#[verifier::external_body]
pub broadcast proof fn axiom_height(n: RefNode, i: int)
    requires 0 <= i < children(n).len()
    ensures height(#[trigger] children(n)[i]) < height(n)
{}

impl<'a> Clone for RefNode<'a> {
    #[verifier::external_body]
    fn clone(&self) -> (r: Self) ensures r == *self { unimplemented!() }
}
impl<'a> RefNode<'a> {
    #[verifier::external_body]
    fn next(&self) -> (r: RefNodes<'a>) ensures r.0@ == children(*self) { unimplemented!() }
}
pub assume_specification<T>[ <[T]>::reverse ](s: &mut [T])
    ensures final(s)@ == old(s)@.reverse();

pub trait Iterator { type Item; fn next(&mut self) -> Option<Self::Item>; }
pub struct RefNodes<'a>(pub Vec<RefNode<'a>>);
pub struct Iter<'a> {
    pub(crate) next: RefNodes<'a>,
}

// ---------- spec: pre-order ----------
#[verifier::opaque]
pub open spec fn below(l: Seq<RefNode>, h: nat) -> bool {
    forall|i: int| 0 <= i < l.len() ==> height(#[trigger] l[i]) < h
}
pub open spec fn preorder(n: RefNode) -> Seq<RefNode>
    decreases height(n), 1nat, 0nat
{
    seq![n] + pl(children(n), height(n))
}
pub open spec fn pl(l: Seq<RefNode>, h: nat) -> Seq<RefNode>
    decreases h, 0nat, l.len()
{
    if l.len() == 0 { seq![] }
    else if height(l[0]) < h {
        preorder(l[0]) + pl(l.drop_first(), h)
    } else { seq![] }
}


proof fn below_idx(l: Seq<RefNode>, h: nat, i: int)
    requires below(l, h), 0 <= i < l.len() ensures height(l[i]) < h
{ reveal(below); }
proof fn below_tail(l: Seq<RefNode>, h: nat)
    requires below(l, h), l.len() > 0 ensures below(l.drop_first(), h), below(l.drop_last(), h), height(l[0]) < h, height(l.last()) < h
{ reveal(below);
  assert forall|i: int| 0 <= i < l.drop_first().len() implies height(#[trigger] l.drop_first()[i]) < h by { assert(l.drop_first()[i] == l[i+1]); }
  assert forall|i: int| 0 <= i < l.drop_last().len() implies height(#[trigger] l.drop_last()[i]) < h by { assert(l.drop_last()[i] == l[i]); }
}
proof fn below_rev(l: Seq<RefNode>, h: nat)
    requires below(l, h) ensures below(l.reverse(), h)
{ reveal(below);
  assert forall|i: int| 0 <= i < l.reverse().len() implies height(#[trigger] l.reverse()[i]) < h by { assert(l.reverse()[i] == l[l.len() - 1 - i]); }
}
proof fn below_app(a: Seq<RefNode>, b: Seq<RefNode>, h: nat)
    requires below(a, h), below(b, h) ensures below(a + b, h)
{ reveal(below);
  assert forall|i: int| 0 <= i < (a + b).len() implies height(#[trigger] (a + b)[i]) < h by {
      if i < a.len() { assert((a+b)[i] == a[i]); } else { assert((a+b)[i] == b[i - a.len()]); } }
}
proof fn below_mono(l: Seq<RefNode>, h1: nat, h2: nat)
    requires below(l, h1), h1 <= h2 ensures below(l, h2)
{ reveal(below); }
proof fn below_children(n: RefNode)
    ensures below(children(n), height(n))
{ reveal(below); broadcast use axiom_height; }

proof fn lemma_pl_h(l: Seq<RefNode>, h1: nat, h2: nat)
    requires below(l, h1), below(l, h2)
    ensures pl(l, h1) == pl(l, h2)
    decreases l.len()
{
    if l.len() > 0 {
        below_tail(l, h1); below_tail(l, h2);
        lemma_pl_h(l.drop_first(), h1, h2);
    }
}

proof fn lemma_pl_append(a: Seq<RefNode>, b: Seq<RefNode>, h: nat)
    requires below(a, h), below(b, h)
    ensures pl(a + b, h) == pl(a, h) + pl(b, h), below(a + b, h)
    decreases a.len()
{
    below_app(a, b, h);
    if a.len() == 0 {
        assert(a + b =~= b);
        assert(pl(a, h) =~= Seq::<RefNode>::empty());
    } else {
        assert((a + b).drop_first() =~= a.drop_first() + b);
        assert((a + b)[0] == a[0]);
        below_tail(a, h);
        lemma_pl_append(a.drop_first(), b, h);
        assert(pl(a + b, h) == preorder(a[0]) + pl(a.drop_first() + b, h));
        assert(pl(a, h) == preorder(a[0]) + pl(a.drop_first(), h));
        assert(preorder(a[0]) + (pl(a.drop_first(), h) + pl(b, h)) =~= (preorder(a[0]) + pl(a.drop_first(), h)) + pl(b, h));
    }
}

impl<'a> Iter<'a> {
    pub closed spec fn stack(&self) -> Seq<RefNode<'a>> { self.next.0@ }
    // what the iterator will still yield, for a height bound h on the stack
    pub open spec fn remaining(&self, h: nat) -> Seq<RefNode<'a>> { pl(self.stack().reverse(), h) }
}

#[verifier::opaque]
pub open spec fn step_ok(old_st: Seq<RefNode>, new_st: Seq<RefNode>, ret: Option<RefNode>, h: nat) -> bool {
    below(old_st, h) ==> below(new_st, h) && (
        if pl(old_st.reverse(), h).len() == 0 { ret is None && pl(new_st.reverse(), h).len() == 0 }
        else { ret == Some(pl(old_st.reverse(), h)[0]) && pl(new_st.reverse(), h) == pl(old_st.reverse(), h).drop_first() })
}
// the one-step theorem used as Iter::next's postcondition
proof fn lemma_step(st: Seq<RefNode>, h: nat)
    requires st.len() > 0, below(st, h)
    ensures
        below(st.drop_last() + children(st.last()).reverse(), h),
        pl(st.reverse(), h) == seq![st.last()] + pl((st.drop_last() + children(st.last()).reverse()).reverse(), h),
{
    let top = st.last();
    let ch = children(top);
    let rest = st.drop_last();
    below_tail(st, h);
    below_children(top);
    below_mono(ch, height(top), h);
    below_rev(ch, h);
    below_rev(rest, h);
    below_app(rest, ch.reverse(), h);
    assert((rest + ch.reverse()).reverse() =~= ch + rest.reverse());
    assert(st.reverse() =~= seq![top] + rest.reverse());
    below_rev(st, h);
    let sr = st.reverse();
    assert(sr[0] == top);
    assert(sr.drop_first() =~= rest.reverse());
    lemma_pl_append(ch, rest.reverse(), h);
    lemma_pl_h(ch, height(top), h);
    assert(pl(sr, h) == preorder(top) + pl(rest.reverse(), h));
    assert(preorder(top) == seq![top] + pl(ch, height(top)));
    assert((seq![top] + pl(ch, h)) + pl(rest.reverse(), h) =~= seq![top] + (pl(ch, h) + pl(rest.reverse(), h)));
}

proof fn lemma_step_ok(st: Seq<RefNode>, new_st: Seq<RefNode>, ret: Option<RefNode>, h: nat)
    requires
        st.len() == 0 ==> ret is None && new_st == st,
        st.len() > 0 ==> ret == Some(st.last()) && new_st == st.drop_last() + children(st.last()).reverse(),
    ensures step_ok(st, new_st, ret, h)
{
    reveal(step_ok);
    if below(st, h) {
        if st.len() > 0 {
            lemma_step(st, h);
            assert((seq![st.last()] + pl(new_st.reverse(), h)).drop_first() =~= pl(new_st.reverse(), h));
        } else {
            assert(st.reverse() =~= st);
        }
    }
}

impl<'a> Iterator for Iter<'a> {
    type Item = RefNode<'a>;

    fn next(&mut self) -> (ret: Option<Self::Item>)
        ensures
            forall|h: nat| #[trigger] step_ok(old(self).stack(), final(self).stack(), ret, h),
    {
        let ret = self.next.0.pop();
        if let Some(x) = ret.clone() {
            let mut x = x.next();
            x.0.reverse();
            self.next.0.append(&mut x.0);
        }
        proof {
            let st = old(self).stack();
            if st.len() > 0 { assert(final(self).stack() =~= st.drop_last() + children(st.last()).reverse()); }
            assert forall|h: nat| #[trigger] step_ok(old(self).stack(), final(self).stack(), ret, h) by {
                lemma_step_ok(old(self).stack(), final(self).stack(), ret, h);
            }
        }
        ret
    }
}

}
fn main() {}
