import re,os,sys,collections
ROOT='/repo/sv-parser-parser/src'
TOK=re.compile(r'''\s+|//[^\n]*|/\*.*?\*/|(?P<str>"(?:\\.|[^"\\])*")|(?P<chr>'(?:\\.|[^'\\])')|(?P<life>'[A-Za-z_]\w*)|(?P<id>[A-Za-z_]\w*)|(?P<num>\d\w*)|(?P<op>::|=>|->|&&|\|\||[-+*/%=<>!&|^~?:;,.(){}\[\]#@$])''',re.S)
def tokenize(src):
    out=[];i=0
    while i<len(src):
        m=TOK.match(src,i)
        if not m: raise Exception('tok '+src[i:i+20])
        i=m.end()
        if m.lastgroup: out.append((m.lastgroup,m.group(m.lastgroup)))
    return out
class P:
    def __init__(s,t): s.t=t;s.i=0
    def peek(s,k=0): return s.t[s.i+k] if s.i+k<len(s.t) else ('eof','')
    def eat(s,v=None):
        x=s.peek()
        if v is not None and x[1]!=v: raise Exception('expected %r got %r at %d'%(v,x,s.i))
        s.i+=1;return x
    def at(s,v): return s.peek()[1]==v
# expression AST: ('var',name) ('call',fn,[args]) ('tuple',[..]) ('closure',pat,body) ('lit',x) ('struct',path,[(field,expr)]) ('path',name) ('other',..)
def parse_expr(p):
    e=parse_primary(p)
    while True:
        if p.at('('):
            args=parse_args(p); e=('call',e,args)
        elif p.at('.'):
            p.eat('.'); n=p.eat()[1]
            if p.at('('): args=parse_args(p); e=('method',e,n,args)
            else: e=('field',e,n)
        elif p.at('?'):
            p.eat('?'); e=('try',e)
        else: break
    return e
def parse_args(p):
    p.eat('(');a=[]
    while not p.at(')'):
        a.append(parse_expr(p))
        if p.at(','): p.eat(',')
    p.eat(')');return a
def parse_pat(p):
    if p.at('('):
        p.eat('(');a=[]
        while not p.at(')'):
            a.append(parse_pat(p))
            if p.at(','):p.eat(',')
        p.eat(')');return ('ptuple',a)
    if p.at('_'): p.eat();return ('pwild',)
    if p.at('mut') or p.at('ref'): p.eat()
    n=p.eat()[1]
    if p.at(':'):
        p.eat(':'); skip_type(p)
    return ('pvar',n)
def skip_type(p):
    d=0
    while True:
        x=p.peek()[1]
        if x in('<','('): d+=1
        elif x in('>',')'):
            if d==0: break
            d-=1
        elif x in(',','|','=') and d==0: break
        p.eat()
def parse_primary(p):
    k,v=p.peek()
    if v=='|' or v=='move' or v=='||':
        if v=='move': p.eat()
        if p.at('||'): p.eat('||'); pats=[]
        else:
            p.eat('|');pats=[]
            while not p.at('|'):
                pats.append(parse_pat(p))
                if p.at(','):p.eat(',')
            p.eat('|')
        body=parse_expr(p)
        return ('closure',pats,body)
    if v=='(':
        p.eat('(');a=[];trail=False
        while not p.at(')'):
            a.append(parse_expr(p));trail=False
            if p.at(','):p.eat(',');trail=True
        p.eat(')')
        if len(a)==1 and not trail: return a[0]
        return ('tuple',a)
    if v=='{':
        return parse_block(p)
    if v=='&': p.eat(); return parse_expr(p)
    if k in('str','chr','num'): p.eat(); return ('lit',v)
    if k=='id':
        if v=='vec' and p.peek(1)[1]=='!':
            p.eat();p.eat();p.eat('[');p.eat(']');return ('vecnew',)
        path=[p.eat()[1]]
        while p.at('::'):
            p.eat('::')
            if p.at('<'):
                p.eat('<');skip_type(p);p.eat('>')
            else: path.append(p.eat()[1])
        name='::'.join(path)
        if p.at('{') and path[-1][0].isupper():
            p.eat('{');fs=[]
            while not p.at('}'):
                f=p.eat()[1]
                if p.at(':'): p.eat(':'); e=parse_expr(p)
                else: e=('var',f)
                fs.append((f,e))
                if p.at(','):p.eat(',')
            p.eat('}');return ('struct',name,fs)
        if len(path)==1 and not path[0][0].isupper(): return ('var',name)
        return ('path',name)
    raise Exception('primary %r at %d'%((k,v),p.i))
def parse_block(p):
    p.eat('{');stmts=[]
    while not p.at('}'):
        if p.at('let'):
            p.eat('let');pat=parse_pat(p);p.eat('=');e=parse_expr(p);p.eat(';');stmts.append(('let',pat,e))
        else:
            e=parse_expr(p)
            if p.at(';'):p.eat(';');stmts.append(('expr',e))
            else: stmts.append(('ret',e))
    p.eat('}');return ('block',stmts)

# ---- analysis ----
NONCONS={'peek','not','eof'}
issues=[];stats=collections.Counter()
def fname(e):
    return e[1] if e[0] in('var','path') else None
def nonconsuming(e):
    if e[0]=='var' and e[1] in NONCONS: return True
    if e[0]=='call' and fname(e[1]) in NONCONS: return True
    return False
def pat_vars(pat):
    if pat[0]=='pvar': return [pat[1]]
    if pat[0]=='pwild': return ['_']
    r=[]
    for x in pat[1]: r+=pat_vars(x)
    return r
def expr_vars(e,out):
    t=e[0]
    if t=='var': out.append(e[1])
    elif t=='tuple':
        for x in e[1]: expr_vars(x,out)
    elif t=='struct':
        for f,x in e[2]: expr_vars(x,out)
    elif t=='call':
        for x in e[2]: expr_vars(x,out)
    elif t=='method':
        expr_vars(e[1],out)
        for x in e[3]: expr_vars(x,out)
    elif t=='block':
        for s in e[1]:
            if s[0] in('expr','ret'): expr_vars(s[1],out)
            else: expr_vars(s[2],out)
    elif t=='field': expr_vars(e[1],out)
    elif t in('lit','path','vecnew'): pass
    elif t=='try': expr_vars(e[1],out)
    elif t=='closure': pass
    return out
def check_parser_expr(e,ctx):
    """recursively check sub-expressions of a combinator expression"""
    t=e[0]
    if t=='call':
        f=fname(e[1])
        args=e[2]
        if f is None:
            # curried e.g. symbol("x")(s) handled elsewhere
            check_parser_expr(e[1],ctx); return
        if f=='terminated':
            if not nonconsuming(args[1]): issues.append((ctx,'terminated drops consuming parser'))
            check_parser_expr(args[0],ctx)
        elif f=='preceded':
            if not nonconsuming(args[0]): issues.append((ctx,'preceded drops consuming parser'))
            check_parser_expr(args[1],ctx)
        elif f=='map':
            check_parser_expr(args[0],ctx)
            c=args[1]
            if c[0]=='closure':
                pv=[v for p_ in c[1] for v in pat_vars(p_)]
                bv=expr_vars(c[2],[])
                inside_nc = ctx.endswith('#nc')
                if pv!=bv and not inside_nc:
                    issues.append((ctx,'map closure vars %r -> %r'%(pv,bv)))
        elif f in NONCONS:
            for a in args: check_parser_expr(a,ctx+'#nc')
        else:
            for a in args:
                if a[0] in('call','tuple'): check_parser_expr(a,ctx)
    elif t=='tuple':
        for a in e[1]: check_parser_expr(a,ctx)
def analyze(name,body_src):
    toks=tokenize('{'+body_src+'}')
    p=P(toks)
    blk=parse_block(p)
    stmts=blk[1]
    binds=[]
    for st in stmts[:-1]:
        if st[0]!='let': return 'irregular'
        pat,e=st[1],st[2]
        # expect pattern (s, X) and e = try(call(EXPR,[s]))
        if not(pat[0]=='ptuple' and len(pat[1])==2 and pat[1][0]==('pvar','s')): return 'irregular'
        if not(e[0]=='try' and e[1][0]=='call' and e[1][2]==[('var','s')]): return 'irregular'
        pe=e[1][1]
        check_parser_expr(pe,name)
        vs=pat_vars(pat[1][1])
        if nonconsuming(pe): 
            continue
        binds+=vs
    last=stmts[-1]
    if last[0]!='ret': return 'irregular'
    e=last[1]
    if not stmts[:-1]:
        # single expression: EXPR(s)
        if e[0]=='call' and e[2]==[('var','s')]:
            check_parser_expr(e[1],name); return 'expr'
        return 'irregular'
    # Ok((s, RESULT))
    if not(e[0]=='call' and fname(e[1])=='Ok' and e[2] and e[2][0][0]=='tuple' and e[2][0][1][0]==('var','s')): return 'irregular'
    res=e[2][0][1][1]
    rv=expr_vars(res,[])
    if rv!=binds:
        issues.append((name,'bind order %r vs result %r'%(binds,rv)))
    return 'seq'
fn_re=re.compile(r'pub\(crate\) fn (\w+)\s*(<[^>]*>)?\s*\(')
def blank(src):
    src=re.sub(r'"(?:\\.|[^"\\])*"',lambda m:'"'+' '*(len(m.group(0))-2)+'"',src)
    src=re.sub(r"'(?:\\.|[^'\\])'",lambda m:"'"+' '*(len(m.group(0))-2)+"'",src)
    return src
errs=[]
for dp,dn,fs in os.walk(ROOT):
    for f in fs:
        if not f.endswith('.rs') or f in('tests.rs','keywords.rs','utils.rs'): continue
        raw=open(os.path.join(dp,f)).read(); src=blank(raw)
        for m in fn_re.finditer(src):
            name=m.group(1)
            i=src.index('{',src.index('->',m.end()))
            head=re.sub(r'\s+',' ',src[m.start():i])
            if 'IResult<Span' not in head: continue
            d=0;j=i
            while True:
                c=src[j]
                if c=='{':d+=1
                elif c=='}':
                    d-=1
                    if d==0:break
                j+=1
            body=raw[i+1:j]
            try:
                r=analyze(name,body)
            except Exception as ex:
                r='parsefail'; errs.append((name,str(ex)[:80]))
            stats[r]+=1
print(stats)
print('ISSUES',len(issues))
for x in issues: print(' ',x)
print('PARSEFAIL',len(errs))
for x in errs[:30]: print(' ',x)
