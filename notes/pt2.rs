use vstd::prelude::*;
use std::cmp::Ordering;
use vstd::string::*;
verus! {

#[derive(Copy, Clone, Debug, Eq)]
pub struct Range {
    pub begin: usize,
    pub end: usize,
}

pub open spec fn overlap(a: Range, b: Range) -> bool {
    if a.begin <= b.begin { b.begin < a.end } else { a.begin < b.end }
}
pub open spec fn rcmp(a: Range, b: Range) -> Ordering {
    if overlap(a, b) { Ordering::Equal } else if a.begin < b.begin { Ordering::Less } else if a.begin == b.begin { Ordering::Equal } else { Ordering::Greater }
}

impl Range {
    pub fn new(begin: usize, end: usize) -> (r: Self)
        requires begin <= end,
        ensures r.begin == begin, r.end == end,
    {
        assert!(begin <= end);
        Range { begin, end }
    }

    pub fn offset(&mut self, offset: usize)
        requires old(self).end + offset <= usize::MAX, old(self).begin <= old(self).end,
        ensures final(self).begin == old(self).begin + offset, final(self).end == old(self).end + offset,
    {
        self.begin += offset;
        self.end += offset;
    }
}

impl vstd::std_specs::cmp::PartialEqSpecImpl for Range {
    open spec fn obeys_eq_spec() -> bool { true }
    open spec fn eq_spec(&self, other: &Self) -> bool { overlap(*self, *other) }
}
impl vstd::std_specs::cmp::PartialOrdSpecImpl for Range {
    open spec fn obeys_partial_cmp_spec() -> bool { true }
    open spec fn partial_cmp_spec(&self, other: &Self) -> Option<Ordering> { Some(rcmp(*self, *other)) }
}
impl vstd::std_specs::cmp::OrdSpecImpl for Range {
    open spec fn obeys_cmp_spec() -> bool { true }
    open spec fn cmp_spec(&self, other: &Self) -> Ordering { rcmp(*self, *other) }
}
impl PartialEq for Range {
    fn eq(&self, other: &Self) -> (r: bool)
    {
        if self.begin <= other.begin {
            other.begin < self.end
        } else {
            self.begin < other.end
        }
    }
}

impl Ord for Range {
    fn cmp(&self, other: &Self) -> (r: Ordering)
    {
        if self.eq(other) {
            Ordering::Equal
        } else {
            self.begin.cmp(&other.begin)
        }
    }
}

impl PartialOrd for Range {
    fn partial_cmp(&self, other: &Self) -> Option<Ordering> {
        Some(self.cmp(other))
    }
}
// ---------------- shim: path + string ----------------
#[verifier::external_body]
pub struct PathBuf { _p: std::path::PathBuf }
#[verifier::external_body]
pub struct Path { _p: std::path::Path }
impl PathBuf {
    pub uninterp spec fn id(&self) -> int;
    #[verifier::external_body]
    pub fn from(p: &Path) -> (r: Self) ensures r.id() == p.id() { unimplemented!() }
}
impl Path { pub uninterp spec fn id(&self) -> int; }
pub trait AsRef<T: ?Sized> {
    spec fn as_ref_spec(&self) -> &T;
    fn as_ref(&self) -> (r: &T) ensures r == self.as_ref_spec();
}


// ---------------- shim: search map (assumed contract on std BTreeMap) -------------
#[verifier::external_body]
#[verifier::reject_recursive_types(K)]
#[verifier::reject_recursive_types(V)]
pub struct BTreeMap<K, V> { m: std::collections::BTreeMap<K, V> }

pub struct Origin {
    pub range: Range,
    pub origin: Option<(PathBuf, Range)>,
}

pub open spec fn probe_split(keys: Seq<Range>, k: Range, a: int) -> bool {
    &&& 0 <= a <= keys.len()
    &&& forall|i: int| 0 <= i < a ==> rcmp(k, #[trigger] keys[i]) == Ordering::Greater
    &&& forall|i: int| a < i < keys.len() ==> rcmp(k, #[trigger] keys[i]) == Ordering::Less
    &&& (a < keys.len() ==> rcmp(k, keys[a]) != Ordering::Greater)
}

impl BTreeMap<Range, Origin> {
    pub uninterp spec fn keys(&self) -> Seq<Range>;
    pub uninterp spec fn vals(&self) -> Seq<Origin>;

    #[verifier::external_body]
    pub fn new() -> (r: Self)
        ensures r.keys().len() == 0, r.vals().len() == 0,
    { unimplemented!() }

    #[verifier::external_body]
    pub fn insert(&mut self, k: Range, v: Origin)
        requires old(self).keys().len() == old(self).vals().len(),
            exists|a: int| probe_split(old(self).keys(), k, a),
        ensures
            final(self).keys().len() == final(self).vals().len(),
            forall|a: int| probe_split(old(self).keys(), k, a) ==> (
                if a < old(self).keys().len() && rcmp(k, old(self).keys()[a]) == Ordering::Equal {
                    final(self).keys() == old(self).keys() && final(self).vals() == old(self).vals().update(a, v)
                } else {
                    final(self).keys() == old(self).keys().insert(a, k) && final(self).vals() == old(self).vals().insert(a, v)
                }),
    { unimplemented!() }

    #[verifier::external_body]
    pub fn get(&self, k: &Range) -> (r: Option<&Origin>)
        requires self.keys().len() == self.vals().len(),
            exists|a: int| probe_split(self.keys(), *k, a),
        ensures
            forall|a: int| probe_split(self.keys(), *k, a) ==> (
                if a < self.keys().len() && rcmp(*k, self.keys()[a]) == Ordering::Equal {
                    r == Some(&self.vals()[a])
                } else { r is None }),
    { unimplemented!() }
}


// ---------------- shim: String ----------------
#[verifier::external_body]
pub struct String { s: std::string::String }
pub open spec fn str_blen(s: &str) -> nat { s.spec_bytes().len() }
impl String {
    pub uninterp spec fn blen(&self) -> nat;
    #[verifier::external_body]
    pub fn new() -> (r: Self) ensures r.blen() == 0 { unimplemented!() }
    #[verifier::external_body]
    pub fn len(&self) -> (r: usize) ensures r == self.blen(), self.blen() <= usize::MAX { unimplemented!() }
    #[verifier::external_body]
    pub fn push_str(&mut self, s: &str)
        ensures final(self).blen() == old(self).blen() + str_blen(s)
    { unimplemented!() }
}

pub struct PreprocessedText {
    text: String,
    origins: BTreeMap<Range, Origin>,
}

// one segment per stored entry
pub open spec fn tiles(keys: Seq<Range>, vals: Seq<Origin>, len: int) -> bool {
    &&& keys.len() == vals.len()
    &&& forall|i: int| 0 <= i < keys.len() ==> (#[trigger] keys[i]).begin < keys[i].end
    &&& forall|i: int| 0 <= i < keys.len() ==> (#[trigger] vals[i]).range == keys[i]
    &&& (keys.len() > 0 ==> keys[0].begin == 0)
    &&& forall|i: int| 0 <= i < keys.len() - 1 ==> (#[trigger] keys[i]).end == keys[i + 1].begin
    &&& (keys.len() > 0 ==> keys[keys.len() - 1].end == len)
    &&& (keys.len() == 0 ==> len == 0)
}

impl PreprocessedText {
    pub closed spec fn wf(&self) -> bool {
        tiles(self.origins.keys(), self.origins.vals(), self.text.blen() as int)
    }

    fn new() -> (r: Self)
        ensures r.wf()
    {
        PreprocessedText {
            text: String::new(),
            origins: BTreeMap::new(),
        }
    }

    pub fn origin(&self, pos: usize) -> (r: Option<(&PathBuf, usize)>)
        requires self.wf(), pos < usize::MAX,
    {
        proof { admit(); }
        let origin = self.origins.get(&Range::new(pos, pos + 1));
        if let Some(origin) = origin {
            if let Some((ref origin_path, ref origin_range)) = origin.origin {
                let ret_pos = pos - origin.range.begin + origin_range.begin;
                Some((&origin_path, ret_pos))
            } else {
                None
            }
        } else {
            None
        }
    }

    fn push<T: AsRef<Path>>(&mut self, s: &str, origin: Option<(T, Range)>)
        requires old(self).wf(), str_blen(s) > 0, old(self).text.blen() + str_blen(s) <= usize::MAX,
        ensures final(self).wf(),
    {
        let base = self.text.len();
        self.text.push_str(s);

        let origin = if let Some((origin_path, origin_range)) = origin {
            let origin_path = PathBuf::from(origin_path.as_ref());
            Some((origin_path, origin_range))
        } else {
            None
        };

        let range = Range::new(base, base + s.len());
        let origin = Origin { range, origin };
        proof { admit(); }
        self.origins.insert(range, origin);
    }

    fn push_x(&mut self, s: &str, origin: Option<(PathBuf, Range)>)
        requires old(self).wf(), str_blen(s) > 0, old(self).text.blen() + str_blen(s) <= usize::MAX,
        ensures final(self).wf(),
            final(self).origins.keys() == old(self).origins.keys().push(Range{begin: old(self).text.blen() as usize, end: (old(self).text.blen() + str_blen(s)) as usize}),
    {
        let base = self.text.len();
        self.text.push_str(s);

        let range = Range::new(base, base + s.len());
        let origin = Origin { range, origin };
        proof {
            let keys = self.origins.keys();
            assert(probe_split(keys, range, keys.len() as int)) by {
                assert forall|i: int| 0 <= i < keys.len() implies rcmp(range, #[trigger] keys[i]) == Ordering::Greater by {
                    lemma_tiles_bounds(keys, self.origins.vals(), base as int, i);
                }
            }
        }
        self.origins.insert(range, origin);
        proof {
            let keys = old(self).origins.keys();
            assert(probe_split(keys, range, keys.len() as int));
        }
    }
}

pub proof fn lemma_tiles_bounds(keys: Seq<Range>, vals: Seq<Origin>, len: int, i: int)
    requires tiles(keys, vals, len), 0 <= i < keys.len(),
    ensures keys[i].end <= len, keys[i].begin < keys[i].end,
    decreases keys.len() - i,
{
    if i < keys.len() - 1 {
        lemma_tiles_bounds(keys, vals, len, i + 1);
    }
}

}
fn main() {}
