use vstd::prelude::*;
verus! {

// ---- shims ----
#[verifier::external_body] pub struct PathBuf { _p: std::path::PathBuf }
#[verifier::external_body] pub struct Path { _p: std::path::Path }
#[verifier::external_body] pub struct IoError { _p: std::io::Error }
#[verifier::external_body] pub struct File { _p: std::fs::File }
#[verifier::external_body] #[verifier::reject_recursive_types(R)] pub struct BufReader<R> { _p: std::io::BufReader<R> }
#[verifier::external_body] pub struct String { _p: std::string::String }
#[verifier::external_body] pub struct PreprocessedText { _p: u8 }
#[verifier::external_body] #[verifier::reject_recursive_types(V)] pub struct Defines<V = u8> { _p: V }

pub enum Error {
    File { source: IoError, path: PathBuf },
    ReadUtf8(PathBuf),
    Other,
}
pub trait AsRef<T: ?Sized> {
    spec fn as_ref_spec(&self) -> &T;
    fn as_ref(&self) -> (r: &T) ensures r == self.as_ref_spec();
}
impl Path { pub uninterp spec fn id(&self) -> int; }
impl PathBuf {
    pub uninterp spec fn id(&self) -> int;
    #[verifier::external_body]
    pub fn from(p: &Path) -> (r: Self) ensures r.id() == p.id() { unimplemented!() }
}
pub uninterp spec fn fs_open(p: int) -> Option<int>;          // Some(handle) if file can be opened
pub uninterp spec fn fs_utf8(h: int) -> Option<Seq<u8>>;      // Some(bytes) if content is UTF-8
impl File {
    pub uninterp spec fn h(&self) -> int;
    #[verifier::external_body]
    pub fn open(p: &Path) -> (r: Result<File, IoError>)
        ensures match r { Ok(f) => fs_open(p.id()) == Some(f.h()), Err(_) => fs_open(p.id()) is None }
    { unimplemented!() }
}
impl BufReader<File> {
    pub uninterp spec fn h(&self) -> int;
    #[verifier::external_body]
    pub fn new(f: File) -> (r: Self) ensures r.h() == f.h() { unimplemented!() }
    #[verifier::external_body]
    pub fn read_to_string(&mut self, s: &mut String) -> (r: Result<usize, IoError>)
        ensures final(self).h() == old(self).h(),
            match r { Ok(_) => fs_utf8(old(self).h()) == Some(final(s).bytes()), Err(_) => fs_utf8(old(self).h()) is None }
    { unimplemented!() }
}
impl String {
    pub uninterp spec fn bytes(&self) -> Seq<u8>;
    #[verifier::external_body]
    pub fn new() -> (r: Self) { unimplemented!() }
}

pub uninterp spec fn pp_str_spec(s: Seq<u8>, path: int, defs: int, incs: int, ignore_include: bool, strip_comments: bool, resolve_depth: usize, include_depth: usize) -> int;
pub uninterp spec fn res_id(r: Result<(PreprocessedText, Defines), Error>) -> int;

#[verifier::external_body]
pub fn preprocess_str<T: AsRef<Path>>(
    s: &String,
    path: T,
    ignore_include: bool,
    strip_comments: bool,
    resolve_depth: usize,
    include_depth: usize,
) -> (r: Result<(PreprocessedText, Defines), Error>)
    ensures res_id(r) == pp_str_spec(s.bytes(), path.as_ref_spec().id(), 0, 0, ignore_include, strip_comments, resolve_depth, include_depth)
{ unimplemented!() }

fn preprocess_inner<T: AsRef<Path>>(
    path: T,
    strip_comments: bool,
    ignore_include: bool,
    include_depth: usize,
) -> (r: Result<(PreprocessedText, Defines), Error>)
    ensures
        fs_open(path.as_ref_spec().id()) is None ==> (r matches Err(Error::File{source, path: p}) && p.id() == path.as_ref_spec().id()),
        forall|h: int| fs_open(path.as_ref_spec().id()) == Some(h) && fs_utf8(h) is None ==> (r matches Err(Error::ReadUtf8(p)) && p.id() == path.as_ref_spec().id()),
        forall|h: int, b: Seq<u8>| fs_open(path.as_ref_spec().id()) == Some(h) && fs_utf8(h) == Some(b) ==>
            res_id(r) == pp_str_spec(b, path.as_ref_spec().id(), 0, 0, ignore_include, strip_comments, 0, include_depth),
{

    let f = File::open(path.as_ref()).map_err(|x: IoError| -> (e: Error) ensures (e matches Error::File{source, path: p} && p.id() == path.as_ref_spec().id()) { Error::File {
        source: x,
        path: PathBuf::from(path.as_ref()),
    } })?;
    let mut reader = BufReader::new(f);
    let mut s = String::new();

    if let Err(_) = reader.read_to_string(&mut s) {
        Err(Error::ReadUtf8(PathBuf::from(path.as_ref())))
    } else {
        preprocess_str(
            &s,
            path,
            ignore_include,
            strip_comments,
            0, // resolve_depth
            include_depth,
        )
    }
}

}
fn main() {}
