use vstd::prelude::*;
verus! {

// ---- shim: opaque node handle ----
#[verifier::external_body]
pub struct RefNode<'a> { _p: &'a u8 }

pub uninterp spec fn children(n: RefNode) -> Seq<RefNode>;
pub uninterp spec fn height(n: RefNode) -> nat;
// finiteness of owned trees (assumed)
#[verifier::external_body]
pub broadcast proof fn axiom_height(n: RefNode, i: int)
    requires 0 <= i < children(n).len()
    ensures height(#[trigger] children(n)[i]) < height(n)
{}

impl<'a> Clone for RefNode<'a> {
    #[verifier::external_body]
    fn clone(&self) -> (r: Self) ensures r == *self { unimplemented!() }
}

impl<'a> RefNode<'a> {
    #[verifier::external_body]
    fn next(&self) -> (r: RefNodes<'a>) ensures r.0@ == children(*self) { unimplemented!() }
}

pub assume_specification<T>[ <[T]>::reverse ](s: &mut [T])
    ensures final(s)@ == old(s)@.reverse();

pub trait Iterator { type Item; fn next(&mut self) -> Option<Self::Item>; }
pub struct RefNodes<'a>(pub Vec<RefNode<'a>>);

pub struct Iter<'a> {
    pub(crate) next: RefNodes<'a>,
}

pub open spec fn preorder(n: RefNode) -> Seq<RefNode>
    decreases height(n), 1nat, 0nat
{
    seq![n] + preorder_list(children(n), height(n))
}
pub open spec fn preorder_list(l: Seq<RefNode>, h: nat) -> Seq<RefNode>
    decreases h, 0nat, l.len()
{
    if l.len() == 0 { seq![] }
    else if forall|i: int| 0 <= i < l.len() ==> height(#[trigger] l[i]) < h {
        preorder(l[0]) + preorder_list(l.drop_first(), h)
    } else { seq![] }
}

impl<'a> Iter<'a> { pub closed spec fn stack(&self) -> Seq<RefNode<'a>> { self.next.0@ } }
impl<'a> Iterator for Iter<'a> {
    type Item = RefNode<'a>;

    fn next(&mut self) -> (ret: Option<Self::Item>)
        ensures
            old(self).stack().len() == 0 ==> ret is None && final(self).stack() == old(self).stack(),
            old(self).stack().len() > 0 ==> ret == Some(old(self).stack().last())
                && final(self).stack() == old(self).stack().drop_last() + children(old(self).stack().last()).reverse(),
    {
        let ret = self.next.0.pop();
        if let Some(x) = ret.clone() {
            let mut x = x.next();
            x.0.reverse();
            self.next.0.append(&mut x.0);
        }
        ret
    }
}

}
fn main() {}
