use vstd::prelude::*;
verus! {

#[verifier::external_body]
pub struct RefNode<'a> { _p: &'a u8 }

pub struct RefNodes<'a>(pub Vec<RefNode<'a>>);

pub trait NView { spec fn nview(self) -> Seq<RefNode<'static>>; }
impl<'a> NView for RefNodes<'a> { open spec fn nview(self) -> Seq<RefNode<'static>> { self.0@ } }

pub trait VFrom<T>: Sized + NView {
    spec fn from_view(x: T) -> Seq<RefNode<'static>>;
    fn vfrom(x: T) -> (r: Self) ensures r.nview() == Self::from_view(x);
}
pub trait VInto<T: NView>: Sized {
    spec fn into_view(self) -> Seq<RefNode<'static>>;
    fn vinto(self) -> (r: T) ensures r.nview() == self.into_view();
}
impl<T, U: VFrom<T>> VInto<U> for T {
    open spec fn into_view(self) -> Seq<RefNode<'static>> { U::from_view(self) }
    fn vinto(self) -> (r: U) { U::vfrom(self) }
}

impl<'a> VFrom<Vec<RefNode<'a>>> for RefNodes<'a> {
    open spec fn from_view(x: Vec<RefNode<'a>>) -> Seq<RefNode<'static>> { x@ }
    fn vfrom(x: Vec<RefNode<'a>>) -> Self {
        RefNodes(x)
    }
}

impl<'a, T0: 'a, T1: 'a, T2: 'a> VFrom<&'a (T0, T1, T2)> for RefNodes<'a>
where
    &'a T0: VInto<RefNodes<'a>>,
    &'a T1: VInto<RefNodes<'a>>,
    &'a T2: VInto<RefNodes<'a>>,
{
    open spec fn from_view(x: &'a (T0, T1, T2)) -> Seq<RefNode<'static>> { (&x.0).into_view() + (&x.1).into_view() + (&x.2).into_view() }
    fn vfrom(x: &'a (T0, T1, T2)) -> Self {
        let mut ret = Vec::new();
        let (t0, t1, t2) = x;
        ret.append(&mut t0.vinto().0);
        ret.append(&mut t1.vinto().0);
        ret.append(&mut t2.vinto().0);
        ret.vinto()
    }
}

impl<'a, T: 'a> VFrom<&'a Vec<T>> for RefNodes<'a>
where
    &'a T: VInto<RefNodes<'a>>,
{
    open spec fn from_view(x: &'a Vec<T>) -> Seq<RefNode<'static>> { x@.map_values(|t: T| (&t).into_view()).flatten() }
    fn vfrom(x: &'a Vec<T>) -> Self {
        let mut ret = Vec::new();
        for x in x {
            ret.append(&mut x.vinto().0);
        }
        ret.vinto()
    }
}
}
fn main() {}
