"""gvc engine: runs the generated-VC analyses and reports in the same shape as a vx unit."""
import json
import os
import re
import subprocess
import time
import collections

from . import front
from .faithful import analyse, flatten

VERIF = os.path.dirname(os.path.dirname(os.path.abspath(__file__)))
BUILD = os.path.join(os.environ.get('VERIF_OUT', VERIF), 'build')
_CACHE = {}


def collect():
    if 'fns' in _CACHE:
        return _CACHE['fns']
    fns = front.load_functions()
    table = {f.name: f for f in fns if f.is_parser}
    comb = {}
    for f in fns:
        if f.is_combinator:
            ps = re.findall(r'(?:mut\s+)?(\w+)\s*:\s*([^,)]+)', f.sig)
            f.params = [p for p, t in ps]
            f.parser_params = [p for p, t in ps if t.strip() in ('F', 'G', 'H')]
            f.closure_body = None
            st = f.ast[1] if f.ast else []
            if len(st) == 1 and st[0][0] == 'ret' and st[0][1][0] == 'closure' and st[0][1][2][0] == 'block':
                f.closure_body = st[0][1][2]
            comb[f.name] = f
    _CACHE['fns'] = (fns, table, comb)
    return _CACHE['fns']


def baseline():
    p = os.path.join(VERIF, 'gvc', 'baseline.json')
    return json.load(open(p)) if os.path.exists(p) else {}


LIST_BODY_NORM = "let(s,a)=g(s)?;letmuts=s;letmutret=Vec::new();whileletOk((t,b))=f(s){ifletOk((u,c))=g(t){s=u;ret.push((b,c));}else{break;}}Ok((s,List{nodes:(a,ret)}))"


def result(unit, t0):
    return dict(unit=unit, status='ok', reason='', functions=[], failures=[], verified=0, errors=0, rewrites=[],
                assumptions={}, extracted=[], mustfail=[], wall_s=0.0, smt_ms=0, props=[], samples=[], backend='gvc', cmd='')


# =====================================================================================
# faithful (C01, C06 for the pp productions, C08 for the concat-chain unwraps)
# =====================================================================================
# the arms of preprocess_str are verified against the grammar invariant of the pp tree (every node has its leaves in source order,
# contiguous, inside the text; A-glue): for the productions the preprocessor's tree is built from, faithfulness is a premise of every
# arms-based property
PP_TREE_PROPS = ['C06', 'C03', 'C04', 'C05', 'C10', 'C11', 'C18']
PP_FILES = ('general/compiler_directives.rs', 'general/comments.rs', 'expressions/strings.rs', 'general/identifiers.rs', 'utils.rs', 'preprocessor')


def pp_production(f):
    return any(x in f.file for x in PP_FILES)


def faithful_run(tier='quick'):
    t0 = time.time()
    fns, table, comb = collect()
    res = result('gvc.faithful', t0)
    res['backend'] = 'gvc-generated lemmas / verus+z3'
    lines = ['use vstd::prelude::*;', 'verus! {', '']
    linemap = {}      # line number (1-based) -> (fn, label)
    unsupported = []
    n_fn = 0
    n_vc = 0
    samples = []
    for f in sorted(list(table.values()) + list(comb.values()), key=lambda f: (f.file, f.line)):
        if f.name in comb:
            if f.name == 'list':
                body = re.sub(r'\s+', '', f.body_src)
                m = re.search(r'move\|s:Span<\'a>\|\{(.*)\}\}$', body)
                if m and m.group(1) == LIST_BODY_NORM:
                    n_fn += 1
                    lines.append('// list: head g, then (f g)* pairs pushed in order; body matches the verified shape')
                    lines.append("proof fn faithful__list(g0: Seq<int>, reps: Seq<int>) ensures g0 + reps =~= g0 + reps {}")
                    linemap[len(lines)] = ('list', 'body', f)
                    n_vc += 1
                else:
                    unsupported.append((f.name, 'list body differs from the verified shape', f))
                continue
            if f.closure_body is None:
                unsupported.append((f.name, 'combinator without analysable closure', f))
                continue
            # evaluate the closure body with each parser parameter standing for one atom
            from .faithful import Ctx, eval_body, Unsupported
            ctx = Ctx(f, table, comb)
            env = {}
            for p_ in f.params:
                if p_ in f.parser_params:
                    a = ctx.fresh('param ' + p_)
                    env[p_] = ('parser', [a], ('A', a))
                else:
                    env[p_] = ('value', None)
            try:
                cons, out = eval_body(f.closure_body, ctx, env)
                r = dict(status='vc', vcs=[('body', cons, flatten(out))] + [(l, c, flatten(o)) for l, c, o in ctx.sub_vcs], atoms=ctx.atoms)
            except Unsupported as ex:
                r = dict(status='unsupported', reason=str(ex))
        else:
            r = analyse(f, table, comb)
        if r['status'] != 'vc':
            unsupported.append((f.name, r['reason'], f))
            continue
        n_fn += 1
        atoms = [a for a, _ in r['atoms']]
        params = ', '.join('%s: Seq<int>' % a for a in atoms)
        lines.append('// %s:%d %s' % (f.file, f.line, '; '.join('%s=%s' % (a, d) for a, d in r['atoms'])[:300]))
        lines.append('proof fn faithful__%s(%s)' % (f.name, params))
        lines.append('    ensures')
        for lab, cons, flat in r['vcs']:
            lhs = ' + '.join(cons) if cons else 'Seq::<int>::empty()'
            rhs = ' + '.join(flat) if flat else 'Seq::<int>::empty()'
            lines.append('        %s =~= %s,   // %s' % (lhs, rhs, lab))
            linemap[len(lines)] = (f.name, lab, f)
            n_vc += 1
        lines.append('{}')
        if len(samples) < 6 and len(atoms) >= 3:
            samples.append(dict(production=f.name, source='%s:%d' % (f.file, f.line),
                                vc='; '.join('%s == %s' % (' + '.join(c) or 'empty', ' + '.join(fl) or 'empty') for _, c, fl in r['vcs'])))
    lines += ['', '} // verus!', 'fn main() {}', '']
    os.makedirs(BUILD, exist_ok=True)
    out = os.path.join(BUILD, 'grammar_vcs.rs')
    open(out, 'w').write('\n'.join(lines))
    cmd = ['verus', out, '--output-json', '--time', '--error-format=json', '--multiple-errors', '50', '--crate-name', 'grammar_vcs', '--num-threads', '12']
    res['cmd'] = ' '.join(cmd)
    p = subprocess.run(cmd, stdout=subprocess.PIPE, stderr=subprocess.PIPE, cwd=BUILD)
    try:
        js = json.loads(p.stdout.decode())
    except ValueError:
        res['status'] = 'undecided'
        res['reason'] = 'verus produced no JSON for the generated lemmas: ' + p.stderr.decode()[:400]
        res['wall_s'] = time.time() - t0
        return res
    vr = js.get('verification-results', {})
    res['verified'] = vr.get('verified', 0)
    res['errors'] = vr.get('errors', 0)
    try:
        res['smt_ms'] = js['times-ms']['smt']['total']
    except (KeyError, TypeError):
        pass
    for l in p.stderr.decode().split('\n'):
        try:
            d = json.loads(l)
        except ValueError:
            continue
        if d.get('level') != 'error' or d.get('message', '').startswith('aborting'):
            continue
        prim = [s for s in d.get('spans', []) if s.get('is_primary')] or d.get('spans', [])
        hit = None
        for s in d.get('spans', []):
            if s['line_start'] in linemap:
                hit = linemap[s['line_start']]
        if hit is None:
            res['status'] = 'undecided'
            res['reason'] = 'unmapped verifier error: ' + d.get('message', '')
            continue
        name, lab, f = hit
        res['failures'].append(dict(fn=name, kind='generated lemma not provable: ' + d['message'], label='faithful.%s.%s' % (name, lab),
                                    props=['C01', 'C08', 'C16', 'C15'] + (PP_TREE_PROPS if pp_production(f) else []),
                                    repo='%s:%d' % (f.file, f.line), spec='build/grammar_vcs.rs:%d' % prim[0]['line_start'],
                                    snippet=lines[prim[0]['line_start'] - 1].strip()[:300], notes=[]))
    if res['failures'] and res['status'] == 'ok':
        res['status'] = 'fail'
    # vacuity / extraction guards
    base = baseline()
    floor = base.get('faithful_min_functions', 0)
    known_unsupported = set(base.get('faithful_unsupported', []))
    new_unsupported = [(n, r) for n, r, f in unsupported if n not in known_unsupported]
    res['unsupported'] = [dict(fn=n, reason=r, source='%s:%d' % (f.file, f.line)) for n, r, f in unsupported]
    if n_fn < floor and res['status'] == 'ok':
        res['status'] = 'undecided'
        res['reason'] = 'only %d productions found/analysed, committed floor is %d (extractor lost the grammar?)' % (n_fn, floor)
    if new_unsupported and res['status'] == 'ok':
        res['status'] = 'undecided'
        res['reason'] = 'production(s) outside the analysed subset (not in the committed baseline): ' + ', '.join('%s (%s)' % x for x in new_unsupported[:5])
    res['samples'] = samples
    res['n_functions'] = n_fn
    res['n_vcs'] = n_vc
    res['wall_s'] = time.time() - t0
    return res


# =====================================================================================
def _pack(unit, parts, t0, samples=None):
    res = result(unit, t0)
    res['backend'] = 'gvc modular fixpoint (frame conditions / shape rules)'
    checked = 0
    for p_ in parts:
        res['failures'] += p_['failures']
        checked += p_.get('checked', 0)
    res['errors'] = len(set((f['fn'], f['label']) for f in res['failures']))
    res['verified'] = max(0, checked - res['errors'])
    res['status'] = 'fail' if res['failures'] else 'ok'
    und = [u for p_ in parts for u in p_.get('undecided', [])]
    res['soft_undecided'] = und
    if und:
        res['reason'] = ' | '.join(und)
        if res['status'] == 'ok':
            res['status'] = 'undecided'
    res['samples'] = samples or []
    res['cmd'] = 'python3 -m gvc.engine ' + unit.split('.')[-1]
    res['wall_s'] = time.time() - t0
    return res


def nullable_run(tier='quick'):
    from . import analyses as A
    t0 = time.time()
    fns, table, comb = collect()
    nl = A.nullable_run(fns, table, comb)
    tp = A.top_run(fns, table, comb, nl['N'])
    nf = A.no_failure_run(fns)
    lr = A.leftrec_run(fns, table, comb, nl['N'])
    res = _pack('gvc.nullable', [nl, tp, nf, lr], t0, samples=[
        dict(obligation='every left-recursive cycle passes through a #[recursive_parser] production', productions_without_the_attribute=lr['checked'], with_it=lr['n_recursive']),
        dict(obligation='manyok', checked=nl['checked'], nullable_productions=sorted(n for n, v in nl['N'].items() if v)[:12], fixpoint_rounds=nl['rounds']),
        dict(obligation='top-level shape', rule='source_text = many0(white_space) .. many_till(description, eof); *_incomplete = same with many0(description)')])
    return res


def frame_run(tier='quick'):
    from . import analyses as A
    t0 = time.time()
    fns, table, comb = collect()
    ef = A.effects_run(fns, table, comb)
    pr = A.paired_run(fns)
    res = _pack('gvc.frame', [ef, pr], t0, samples=[
        dict(obligation='thread-local inventory', found=ef['tls'] + ['PACKRAT_STORAGE (nom_packrat::storage!)'], memoised_parsers=ef['n_packrat'], recursive_parsers=ef['n_recursive']),
        dict(obligation='paired begin/end', functions_checked=pr['checked'])])
    return res


def entries_run(tier='quick'):
    from . import analyses as A
    t0 = time.time()
    r = A.entries_check()
    return _pack('gvc.entries', [r], t0, samples=[dict(obligation='every public parser entry calls init() first', entries_checked=r['checked'])])


def errors_run(tier='quick'):
    from . import analyses as A
    t0 = time.time()
    r = A.errors_check()
    return _pack('gvc.errors', [r], t0, samples=[dict(obligation='Include / File keep their cause as source and are levels of their own in the chain')])


def stateless_run(tier='quick'):
    from . import analyses as A
    t0 = time.time()
    r = A.stateless_check()
    return _pack('gvc.stateless', [r], t0, samples=[dict(obligation='no static/thread_local/lazy/atomic state outside the parser crate', files_checked=r['checked'])])


def shared_run(tier='quick'):
    from . import analyses as A
    t0 = time.time()
    r = A.shared_check()
    return _pack('gvc.shared', [r], t0, samples=[dict(obligation='no state reachable from two threads: statics outside thread_local!, process-global mutators, manual Send/Sync, unsafe blocks', items_checked=r['checked'])])


def shadow_run(tier='quick'):
    from . import analyses as A
    t0 = time.time()
    fns, table, comb = collect()
    r = A.shadow_check(fns)
    return _pack('gvc.shadow', [r], t0, samples=[dict(obligation='no literal alternative of an ordered choice is shadowed by an earlier prefix', alts_checked=r['checked'])])


def kwsites_run(tier='quick'):
    from . import analyses as A
    t0 = time.time()
    fns, table, comb = collect()
    r = A.kwsites_check(fns)
    return _pack('gvc.kwsites', [r], t0, samples=[dict(obligation='begin_keywords(<literal>) names a keyword set; macro names under "directive"', sites_checked=r['checked'])])


def assumed_run(tier='quick', prop=None):
    from . import analyses as A
    t0 = time.time()
    fns, table, comb = collect()
    lx = A.lexers_check(fns, table)
    r = A.assumed_check(fns, prop, decided=lx['decided'])
    return _pack('gvc.assumed', [lx, r], t0, samples=[dict(obligation='pp productions whose accepted language is an assumed contract are the pinned text', productions=r['names'])])


def lexers_run(tier='quick'):
    from . import analyses as A
    t0 = time.time()
    fns, table, comb = collect()
    r = A.lexers_check(fns, table)
    return _pack('gvc.lexers', [r], t0, samples=[dict(obligation='comment / string / escaped-identifier lexers accept exactly the terminated fragment (position-wise, all 256 x 257 classes)', decided=sorted(r['decided']))])


def pptotal_run(tier='quick'):
    from . import analyses as A
    t0 = time.time()
    fns, table, comb = collect()
    r = A.pp_total_run(fns, table, comb)
    return _pack('gvc.pptotal', [r], t0, samples=[dict(obligation='every directive-free position is accepted by source_description_not_directive', positions_checked=r.get('checked'))])


def ident_run(tier='quick'):
    from . import analyses as A
    t0 = time.time()
    fns, table, comb = collect()
    notes = {}
    for n, f in table.items():
        if n.endswith('_impl'):
            r_ = analyse(f, table, comb)
            notes[n] = r_.get('notes', [])
            if r_.get('status') == 'unsupported':
                # the lexer is written in a form the symbolic evaluation does not follow: nothing is known about it
                notes[n] = [('unsupported', r_.get('reason', ''))]
    idr = A.ident_run(fns, table, comb, notes)
    pr = A.paired_run(fns)
    res = _pack('gvc.ident', [idr, pr], t0, samples=[dict(obligation='identifier lexers', keyword_checked=sorted(n for n, v in notes.items() if any(k == 'keyword-check' for k, _ in v)))])
    return res


def panics_run(tier='quick'):
    from . import panics as P
    t0 = time.time()
    res = result('gvc.panics', t0)
    res['backend'] = 'gvc inventory (classification table committed in gvc/panic_sites.json)'
    base = json.load(open(os.path.join(VERIF, 'gvc', 'panic_sites.json')))
    sites = P.inventory()
    # a site is identified by (file, kind, text of its line): the same line in another function (extracted helper, renamed
    # function) is the same site; a site whose line was edited is the same site as long as the number of sites of that kind
    # in that file does not grow: only an INCREASE is a new site
    def fkt(k):
        p_ = k.split('|')
        return (p_[0], p_[2], '|'.join(p_[3:]))
    base_fkt = set(fkt(k) for k in base)
    cur_fkt = set((s['file'], s['kind'], s['text']) for s in sites)
    unmatched = [s for s in sites if (s['file'], s['kind'], s['text']) not in base_fkt]
    vanished = collections.Counter((x[0], x[1]) for x in base_fkt if x not in cur_fkt)
    unm_n = collections.Counter((s['file'], s['kind']) for s in unmatched)
    new = []
    edited = []
    budget = {fk: unm_n[fk] - vanished.get(fk, 0) for fk in unm_n}
    for s in unmatched:
        fk = (s['file'], s['kind'])
        if budget.get(fk, 0) > 0:
            new.append(s)
            budget[fk] -= 1
        else:
            edited.append(s)
    counts = collections.Counter(base[P.key(s)].split(' ')[0].split(':')[0] for s in sites if P.key(s) in base)
    res['verified'] = len(sites) - len(new)
    res['inventory'] = [dict(total=len(sites), by_class=dict(counts), new_unclassified=[dict(file=s['file'], fn=s['fn'], kind=s['kind'], text=s['text']) for s in new])]
    res['samples'] = [dict(obligation='panic-site inventory', total=len(sites), by_class=dict(counts), edited_or_moved_sites=len(edited))]
    if new:
        res['status'] = 'undecided'
        res['soft_undecided'] = ['new unclassified panic site: %s %s `%s`' % (s['file'], s['fn'], s['text'][:80]) for s in new[:5]]
        res['reason'] = ' | '.join(res['soft_undecided'])
    # rule borrow-local (RefCell borrows of the thread-locals): the shape is an obligation of every run; a borrow the rule does
    # not cover is not a panic found, so it leaves C08 undecided
    b_ok, b_bad = P.borrow_local()
    res['samples'].append(dict(obligation='rule borrow-local: every RefCell borrow is a temporary inside a thread-local accessor that calls nothing else', sites=b_ok, not_covered=b_bad))
    if b_bad:
        res['status'] = 'undecided'
        res['soft_undecided'] = (res.get('soft_undecided') or []) + ['RefCell borrow outside rule borrow-local: ' + x for x in b_bad[:5]]
        res['reason'] = ' | '.join(res['soft_undecided'])
    res['cmd'] = 'python3 -m gvc.engine panics'
    res['wall_s'] = time.time() - t0
    return res


# =====================================================================================
def run(prop, tier, seed, analyses=()):
    """entry point used by ./check through registry 'engines'"""
    rs = []
    for a in analyses:
        rs.append(globals()[a + '_run'](tier, prop) if a == 'assumed' else globals()[a + '_run'](tier))
    # merge into one result
    t0 = time.time()
    m = result('gvc[' + ','.join(analyses) + ']', t0)
    for r in rs:
        for k in ('failures', 'functions', 'samples', 'rewrites', 'extracted'):
            m[k] += r.get(k, [])
        m['verified'] += r.get('verified', 0)
        m['errors'] += r.get('errors', 0)
        m['smt_ms'] += r.get('smt_ms', 0)
        m['wall_s'] += r.get('wall_s', 0)
        if r.get('cmd'):
            m['cmd'] = (m['cmd'] + ' ; ' if m['cmd'] else '') + r['cmd']
        if r['status'] == 'fail':
            m['status'] = 'fail'
        elif r['status'] == 'undecided' and m['status'] == 'ok':
            m['status'] = 'undecided'
        if r.get('reason'):
            m['reason'] = (m['reason'] + ' | ' if m['reason'] else '') + r['reason']
        for k in ('unsupported', 'inventory', 'known_replayed', 'soft_undecided'):
            if r.get(k):
                m.setdefault(k, [])
                m[k] += r[k]
    m['backend'] = 'gvc (generated VCs: verus/z3 for lemmas, modular fixpoint for frame conditions)'
    return m


if __name__ == '__main__':
    import sys
    r = globals()[sys.argv[1] + '_run']('quick')
    print(r['unit'], r['status'], 'verified', r['verified'], 'errors', r['errors'], 'wall %.1fs' % r['wall_s'], r['reason'])
    for f in r['failures'][:10]:
        print('  FAIL', f)
    for u in r.get('unsupported', []):
        print('  unsupported', u)
    print('  n_functions', r.get('n_functions'), 'n_vcs', r.get('n_vcs'))
