"""gvc front end: tokenise the real parser sources and parse every
`fn NAME(s: Span) -> IResult<Span, T>` body (and the combinators of utils.rs) into a small AST.

AST (tuples):
  ('var', name) ('path', 'A::B') ('lit', text) ('call', f, [args]) ('method', recv, name, [args])
  ('field', e, name) ('try', e) ('tuple', [es]) ('struct', path, [(field, e)]) ('closure', [pats], body)
  ('block', [stmts]) ('ref', e) ('unary', op, e) ('binop', op, a, b) ('macro', name, toks) ('if', cond, then, else)
  ('match', e, [(pat_tokens, body)]) ('other', toks)
statements: ('let', pat, e) ('expr', e) ('ret', e)
patterns:   ('pvar', name) ('pwild',) ('ptuple', [pats]) ('pother', toks)
"""
import os
import re

REPO = os.environ.get('VERIF_REPO', '/repo')
PARSER_SRC = os.path.join(REPO, 'sv-parser-parser', 'src')

TOK = re.compile(r'''\s+|//[^\n]*|/\*.*?\*/|(?P<str>b?"(?:\\.|[^"\\])*")|(?P<chr>b?'(?:\\.|[^'\\])')|(?P<life>'[A-Za-z_]\w*)|(?P<id>r#[A-Za-z_]\w*|[A-Za-z_]\w*)|(?P<num>\d\w*)|(?P<op>::|=>|->|&&|\|\||==|!=|<=|>=|\.\.=|\.\.|[-+*/%=<>!&|^~?:;,.(){}\[\]#@$])''', re.S)


class ParseError(Exception):
    pass


def tokenize(src):
    out = []
    i = 0
    n = len(src)
    while i < n:
        m = TOK.match(src, i)
        if not m:
            raise ParseError('cannot tokenise at %r' % src[i:i + 20])
        i = m.end()
        if m.lastgroup:
            v = m.group(m.lastgroup)
            if m.lastgroup == 'id' and v.startswith('r#'):
                v = v[2:]
            out.append((m.lastgroup, v, m.start()))
    return out


class P:
    def __init__(self, toks):
        self.t = toks
        self.i = 0

    def peek(self, k=0):
        return self.t[self.i + k][:2] if self.i + k < len(self.t) else ('eof', '')

    def eat(self, v=None):
        x = self.peek()
        if v is not None and x[1] != v:
            raise ParseError('expected %r got %r at token %d' % (v, x, self.i))
        self.i += 1
        return x

    def at(self, v):
        return self.peek()[1] == v


def skip_balanced(p, open_, close):
    """consume a balanced bracket group, return token texts"""
    toks = []
    d = 0
    while True:
        k, v = p.eat()
        toks.append(v)
        if v == open_:
            d += 1
        elif v == close:
            d -= 1
            if d == 0:
                return toks
        if k == 'eof':
            raise ParseError('unbalanced')


def skip_type(p):
    d = 0
    toks = []
    while True:
        x = p.peek()[1]
        if x in ('<', '(', '['):
            d += 1
        elif x in ('>', ')', ']'):
            if d == 0:
                break
            d -= 1
        elif x in (',', '|', '=', '{', ';') and d == 0:
            break
        elif p.peek()[0] == 'eof':
            break
        toks.append(p.eat()[1])
    return toks


def parse_pat(p):
    if p.at('('):
        p.eat('(')
        a = []
        while not p.at(')'):
            a.append(parse_pat(p))
            if p.at(','):
                p.eat(',')
        p.eat(')')
        return ('ptuple', a)
    if p.at('_'):
        p.eat()
        return ('pwild',)
    while p.at('mut') or p.at('ref') or p.at('&'):
        p.eat()
    k, n = p.eat()
    if k != 'id':
        raise ParseError('pattern %r' % n)
    # path patterns / struct patterns / enum patterns: keep as other
    if p.at('::') or p.at('(') or p.at('{'):
        toks = [n]
        while p.at('::'):
            toks.append(p.eat()[1])
            toks.append(p.eat()[1])
        if p.at('('):
            toks += skip_balanced(p, '(', ')')
        elif p.at('{'):
            toks += skip_balanced(p, '{', '}')
        return ('pother', toks)
    if p.at(':'):
        p.eat(':')
        skip_type(p)
    return ('pvar', n)


BINOPS = {'==', '!=', '<', '>', '<=', '>=', '&&', '||', '+', '-', '*', '/', '%', '..', '..='}


def parse_expr(p, no_struct=False):
    e = parse_unary(p, no_struct)
    while p.peek()[1] in BINOPS:
        # generic args are handled in parse_primary via `::<`; a bare `<` here is a comparison
        op = p.eat()[1]
        r = parse_unary(p, no_struct)
        e = ('binop', op, e, r)
    if p.at('as'):
        p.eat('as')
        skip_type(p)
    return e


def parse_unary(p, no_struct=False):
    if p.at('&'):
        p.eat('&')
        if p.at('mut'):
            p.eat('mut')
        return ('ref', parse_unary(p, no_struct))
    if p.at('!') or p.at('-') or p.at('*'):
        op = p.eat()[1]
        return ('unary', op, parse_unary(p, no_struct))
    return parse_postfix(p, no_struct)


def parse_postfix(p, no_struct=False):
    e = parse_primary(p, no_struct)
    while True:
        if p.at('('):
            e = ('call', e, parse_args(p))
        elif p.at('.'):
            p.eat('.')
            k, n = p.eat()
            if p.at('::'):
                p.eat('::')
                p.eat('<')
                skip_type(p)
                p.eat('>')
            if p.at('('):
                e = ('method', e, n, parse_args(p))
            else:
                e = ('field', e, n)
        elif p.at('?'):
            p.eat('?')
            e = ('try', e)
        elif p.at('['):
            toks = skip_balanced(p, '[', ']')
            e = ('index', e, toks)
        else:
            break
    return e


def parse_args(p):
    p.eat('(')
    a = []
    while not p.at(')'):
        a.append(parse_expr(p))
        if p.at(','):
            p.eat(',')
    p.eat(')')
    return a


def parse_primary(p, no_struct=False):
    k, v = p.peek()
    if v in ('|', '||', 'move'):
        if v == 'move':
            p.eat()
        pats = []
        if p.at('||'):
            p.eat('||')
        else:
            p.eat('|')
            while not p.at('|'):
                pats.append(parse_pat(p))
                if p.at(','):
                    p.eat(',')
            p.eat('|')
        if p.at('->'):
            p.eat('->')
            skip_type(p)
        body = parse_expr(p)
        return ('closure', pats, body)
    if v == '(':
        p.eat('(')
        a = []
        trail = False
        while not p.at(')'):
            a.append(parse_expr(p))
            trail = False
            if p.at(','):
                p.eat(',')
                trail = True
        p.eat(')')
        if len(a) == 1 and not trail:
            return a[0]
        return ('tuple', a)
    if v == '{':
        return parse_block(p)
    if v == 'unsafe':
        p.eat()
        return parse_block(p)
    if v == 'if':
        p.eat('if')
        if p.at('let'):
            p.eat('let')
            pat = parse_pat(p)
            p.eat('=')
            cond = ('iflet', pat, parse_expr(p, no_struct=True))
        else:
            cond = parse_expr(p, no_struct=True)
        then = parse_block(p)
        els = None
        if p.at('else'):
            p.eat('else')
            els = parse_primary(p) if p.at('if') else parse_block(p)
        return ('if', cond, then, els)
    if v == 'match':
        p.eat('match')
        e = parse_expr(p, no_struct=True)
        p.eat('{')
        arms = []
        while not p.at('}'):
            pt = []
            d = 0
            while not (p.at('=>') and d == 0):
                x = p.eat()[1]
                if x in '([{':
                    d += 1
                elif x in ')]}':
                    d -= 1
                pt.append(x)
            p.eat('=>')
            body = parse_expr(p)
            arms.append((pt, body))
            if p.at(','):
                p.eat(',')
        p.eat('}')
        return ('match', e, arms)
    if v in ('while', 'for', 'loop'):
        # loops: keep opaque (only `list` uses one)
        toks = []
        while not p.at('{'):
            toks.append(p.eat()[1])
        body = parse_block(p)
        return ('loop', toks, body)
    if v == 'return':
        p.eat()
        return ('return', parse_expr(p))
    if v == 'break':
        p.eat()
        return ('other', ['break'])
    if k in ('str', 'chr', 'num'):
        p.eat()
        return ('lit', v)
    if k == 'id':
        if p.peek(1)[1] == '!' and p.peek(2)[1] in ('(', '[', '{'):
            name = p.eat()[1]
            p.eat('!')
            o = p.peek()[1]
            toks = skip_balanced(p, o, {'(': ')', '[': ']', '{': '}'}[o])
            return ('macro', name, toks)
        path = [p.eat()[1]]
        while p.at('::'):
            p.eat('::')
            if p.at('<'):
                p.eat('<')
                skip_type(p)
                p.eat('>')
            else:
                path.append(p.eat()[1])
        name = '::'.join(path)
        last = path[-1].replace('r#', '')
        if p.at('{') and not no_struct and last[:1].isupper():
            p.eat('{')
            fs = []
            while not p.at('}'):
                f = p.eat()[1]
                if p.at(':'):
                    p.eat(':')
                    e = parse_expr(p)
                else:
                    e = ('var', f)
                fs.append((f, e))
                if p.at(','):
                    p.eat(',')
            p.eat('}')
            return ('struct', name, fs)
        if len(path) == 1 and not last[:1].isupper():
            return ('var', name)
        return ('path', name)
    raise ParseError('unexpected token %r' % ((k, v),))


def parse_block(p):
    p.eat('{')
    stmts = []
    while not p.at('}'):
        if p.at('let'):
            p.eat('let')
            pat = parse_pat(p)
            if p.at(':'):
                p.eat(':')
                skip_type(p)
            p.eat('=')
            e = parse_expr(p)
            p.eat(';')
            stmts.append(('let', pat, e))
        else:
            e = parse_expr(p)
            if p.at(';'):
                p.eat(';')
                stmts.append(('expr', e))
            elif p.at('='):
                # assignment statement `x = e;`
                p.eat('=')
                r = parse_expr(p)
                if p.at(';'):
                    p.eat(';')
                stmts.append(('assign', e, r))
            elif e[0] in ('if', 'match', 'loop', 'block') and not p.at('}'):
                stmts.append(('expr', e))
            else:
                stmts.append(('ret', e))
    p.eat('}')
    return ('block', stmts)


# ---------------------------------------------------------------------------------------
FN_RE = re.compile(r'((?:#\[[^\]]*\]\s*)*)pub\(crate\) fn (r#\w+|\w+)\s*(<[^>{]*>)?\s*\(')


def blank_strings(src):
    src = re.sub(r'"(?:\\.|[^"\\])*"', lambda m: '"' + ' ' * (len(m.group(0)) - 2) + '"', src)
    src = re.sub(r"'(?:\\.|[^'\\])'", lambda m: "'" + ' ' * (len(m.group(0)) - 2) + "'", src)
    src = re.sub(r'//[^\n]*', lambda m: ' ' * len(m.group(0)), src)
    return src


class Fn:
    def __init__(self, name, file, line, attrs, head, body_src, sig):
        self.name = name
        self.file = file
        self.line = line
        self.attrs = attrs
        self.head = head
        self.body_src = body_src
        self.sig = sig
        self.ast = None
        self.error = None
        self.is_parser = 'IResult<Span' in head and re.search(r'\(\s*s\s*:\s*Span', sig) is not None
        self.is_combinator = 'impl FnMut(Span' in head

    @property
    def packrat(self):
        return 'packrat_parser' in self.attrs

    @property
    def recursive(self):
        return 'recursive_parser' in self.attrs


def load_functions(skip_files=('tests.rs',)):
    fns = []
    for dp, dn, fs in os.walk(PARSER_SRC):
        dn.sort()
        for f in sorted(fs):
            if not f.endswith('.rs') or f in skip_files:
                continue
            path = os.path.join(dp, f)
            raw = open(path, encoding='utf-8').read()
            src = blank_strings(raw)
            rel = os.path.relpath(path, REPO)
            for m in FN_RE.finditer(src):
                attrs = m.group(1)
                if 'cfg(feature = "trace")' in raw[m.start(1):m.end(1)]:
                    continue
                name = m.group(2)
                # body: first '{' after the signature's parameter list / return type
                k = m.end() - 1
                d = 0
                j = k
                while True:
                    c = src[j]
                    if c == '(':
                        d += 1
                    elif c == ')':
                        d -= 1
                        if d == 0:
                            break
                    j += 1
                i = src.index('{', j)
                semi = src.find(';', j, i)
                if semi >= 0:
                    continue
                d = 0
                e = i
                while True:
                    c = src[e]
                    if c == '{':
                        d += 1
                    elif c == '}':
                        d -= 1
                        if d == 0:
                            break
                    e += 1
                head = re.sub(r'\s+', ' ', src[m.start(2):i])
                fn = Fn(name.replace('r#', ''), rel, raw.count('\n', 0, m.start(2)) + 1, raw[m.start(1):m.end(1)], head, raw[i:e + 1], raw[k:j + 1])
                try:
                    fn.ast = parse_block(P(tokenize(fn.body_src)))
                except (ParseError, IndexError) as ex:
                    fn.error = str(ex)
                fns.append(fn)
    return fns


if __name__ == '__main__':
    import collections
    fns = load_functions()
    c = collections.Counter()
    for f in fns:
        c['parser' if f.is_parser else 'combinator' if f.is_combinator else 'other'] += 1
        if f.error:
            c['parsefail'] += 1
            print('FAIL', f.file, f.name, f.error)
    print(c)
