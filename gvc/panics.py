"""C08 G-panic: inventory of every potential panic site outside tests in the six crates, each classified."""
import json, os, re
from . import front
from .analyses import crate_text, VERIF

PATTERNS = [('unwrap', r'\.unwrap\(\)'), ('expect', r'\.expect\('), ('assert', r'\bassert(?:_eq|_ne)?!\s*\('), ('panic', r'\bpanic!\s*\('),
            ('unreachable', r'\bunreachable!\s*\('), ('unimplemented', r'\b(?:unimplemented|todo)!\s*\('),
            ('slice-index', r'\[[^\[\]\n]*\.\.[^\[\]\n]*\]'), ('get_unchecked', r'get_unchecked\('), ('index', r'\w\[\w+\]'),
            ('arith-sub', r'\bdepth\s*-=\s*1'), ('unsafe', r'\bunsafe\s*\{')]
CRATES = ['sv-parser', 'sv-parser-pp', 'sv-parser-parser', 'sv-parser-syntaxtree', 'sv-parser-macros', 'sv-parser-error']


def enclosing_fn(raw, pos):
    best = '?'
    for m in re.finditer(r'\bfn\s+(r#\w+|\w+)', raw[:pos]):
        best = m.group(1)
    return best


def inventory():
    sites = []
    for crate in CRATES:
        for rel, raw in crate_text(crate):
            src = front.blank_strings(raw)
            for kind, pat in PATTERNS:
                for m in re.finditer(pat, src):
                    ls = raw.rfind('\n', 0, m.start()) + 1
                    le = raw.find('\n', m.start())
                    line = re.sub(r'\s+', ' ', raw[ls:le].strip())
                    sites.append(dict(file=rel, fn=enclosing_fn(src, m.start()), kind=kind, text=line[:120]))
    return sites


def key(s):
    return '%s|%s|%s|%s' % (s['file'], s['fn'], s['kind'], s['text'])


def classify_default(s):
    f, fn, k, t = s['file'], s['fn'], s['kind'], s['text']
    if f.startswith('sv-parser-macros'):
        if 'assert_eq!(x.offset' in t:
            return 'proved:derive (Locate fold under contiguous leaves; contiguity is C01/gvc.faithful)'
        return 'build-time (proc-macro expansion, not reachable from an entry point at run time)'
    if f.startswith('sv-parser-parser'):
        if 'concat(' in t and k == 'unwrap':
            return 'rule:concat-chain (gvc.faithful: the two fragments are consecutive in consumption order)'
        if k == 'unwrap' and re.search(r'\bret\.unwrap\(\)', t):
            return 'rule:many1-nonempty (the joined list comes from many1)'
        if k == 'unsafe' or 'new_from_raw_offset' in t:
            return 'rule:concat-chain (unsafe str_concat / raw offset: same adjacency condition)'
        if 'borrow' in t:
            return 'unverified (RefCell borrow of a thread-local; no re-entrancy in the accessors)'
        return 'unverified'
    if f == 'sv-parser-pp/src/range.rs':
        return 'proved:pt (Range::new precondition begin <= end proved at every call site under contract)'
    if f == 'sv-parser-pp/src/preprocess.rs':
        if 'try_into().unwrap()' in t:
            return 'rule:grammar-invariant (every pp node type has a mandatory leaf; fold contract: unit derive) - precondition of the lifted arm (unit arms)'
        if 'identifier(' in t and k == 'unwrap':
            return 'rule:grammar-invariant (an identifier is present under the node) - precondition of the lifted arm (unit arms)'
        if k == 'slice-index' and '[1..]' in t:
            return 'unverified (identifier(): &x[1..] on an escaped identifier that starts with a one-byte backslash)'
        if k == 'unwrap' and 'x.nodes.0.try_into()' in t:
            return 'rule:grammar-invariant (Locate -> Locate conversion cannot fail)'
        return 'unverified'
    if f == 'sv-parser/src/lib.rs':
        if k in ('get_unchecked', 'unsafe'):
            return 'proved:getstr (safety precondition of get_unchecked proved from leaves_ok)'
        if 'get_str(locate).unwrap()' in t:
            return 'unverified (Display/Debug: get_str of a Locate is Some by get_str contract, caller not under contract)'
        if k == 'arith-sub':
            return 'unverified (Display/Debug depth counter; balanced events: unit iter)'
        return 'unverified'
    if f.startswith('sv-parser-syntaxtree'):
        if k == 'slice-index':
            return 'proved:getstr (Locate::str precondition in range / char boundary)'
        return 'unverified'
    return 'unverified'
