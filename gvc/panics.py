"""C08 G-panic: inventory of every potential panic site outside tests in the six crates, each classified."""
import json, os, re
from . import front
from .analyses import crate_text, VERIF

PATTERNS = [('unwrap', r'\.unwrap\(\)'), ('expect', r'\.expect\('), ('assert', r'\bassert(?:_eq|_ne)?!\s*\('), ('panic', r'\bpanic!\s*\('),
            ('unreachable', r'\bunreachable!\s*\('), ('unimplemented', r'\b(?:unimplemented|todo)!\s*\('),
            ('slice-index', r'\[[^\[\]\n]*\.\.[^\[\]\n]*\]'), ('get_unchecked', r'get_unchecked\('), ('index', r'\w\[\w+\]'),
            ('arith-sub', r'\bdepth\s*-=\s*1'), ('unsafe', r'\bunsafe\s*\{'), ('borrow', r'\.borrow(?:_mut)?\(\)')]
CRATES = ['sv-parser', 'sv-parser-pp', 'sv-parser-parser', 'sv-parser-syntaxtree', 'sv-parser-macros', 'sv-parser-error']


def enclosing_fn(raw, pos):
    best = '?'
    for m in re.finditer(r'\bfn\s+(r#\w+|\w+)', raw[:pos]):
        best = m.group(1)
    return best


def inventory():
    sites = []
    for crate in CRATES:
        for rel, raw in crate_text(crate):
            src = front.blank_strings(raw)
            for kind, pat in PATTERNS:
                for m in re.finditer(pat, src):
                    ls = raw.rfind('\n', 0, m.start()) + 1
                    le = raw.find('\n', m.start())
                    line = re.sub(r'\s+', ' ', raw[ls:le].strip())
                    sites.append(dict(file=rel, fn=enclosing_fn(src, m.start()), kind=kind, text=line[:120]))
    return sites


def key(s):
    return '%s|%s|%s|%s' % (s['file'], s['fn'], s['kind'], s['text'])


def classify_default(s):
    f, fn, k, t = s['file'], s['fn'], s['kind'], s['text']
    if f.startswith('sv-parser-macros'):
        if 'assert_eq!(x.offset' in t:
            return 'proved:derive (Locate fold under contiguous leaves; contiguity is C01/gvc.faithful)'
        return 'build-time (proc-macro expansion, not reachable from an entry point at run time)'
    if f.startswith('sv-parser-parser'):
        if 'concat(' in t and k == 'unwrap':
            return 'rule:concat-chain (gvc.faithful: the two fragments are consecutive in consumption order)'
        if k == 'unwrap' and re.search(r'\bret\.unwrap\(\)', t):
            return 'rule:many1-nonempty (the joined list comes from many1)'
        if k == 'unsafe' or 'new_from_raw_offset' in t:
            return 'rule:concat-chain (unsafe str_concat / raw offset: same adjacency condition)'
        if k == 'borrow':
            return 'unverified (RefCell borrow not yet classified: rule borrow-local applies only to the sites listed in panic_sites.json)'
        return 'unverified'
    if f == 'sv-parser-pp/src/range.rs':
        return 'proved:pt (Range::new precondition begin <= end proved at every call site under contract)'
    if f == 'sv-parser-pp/src/preprocess.rs':
        if 'try_into().unwrap()' in t:
            return 'rule:grammar-invariant (every pp node type has a mandatory leaf; fold contract: unit derive) - precondition of the lifted arm (unit arms)'
        if 'identifier(' in t and k == 'unwrap':
            return 'rule:grammar-invariant (an identifier is present under the node) - precondition of the lifted arm (unit arms)'
        if k == 'slice-index' and '[1..]' in t:
            return 'unverified (identifier(): &x[1..] on an escaped identifier that starts with a one-byte backslash)'
        if k == 'unwrap' and 'x.nodes.0.try_into()' in t:
            return 'rule:grammar-invariant (Locate -> Locate conversion cannot fail)'
        return 'unverified'
    if f == 'sv-parser/src/lib.rs':
        if k in ('get_unchecked', 'unsafe'):
            return 'proved:getstr (safety precondition of get_unchecked proved from leaves_ok)'
        if 'get_str(locate).unwrap()' in t:
            return 'unverified (Display/Debug: get_str of a Locate is Some by get_str contract, caller not under contract)'
        if k == 'arith-sub':
            return 'unverified (Display/Debug depth counter; balanced events: unit iter)'
        return 'unverified'
    if f.startswith('sv-parser-syntaxtree'):
        if k == 'slice-index':
            return 'proved:getstr (Locate::str precondition in range / char boundary)'
        return 'unverified'
    return 'unverified'


# rule borrow-local: a RefCell borrow panics only when another borrow of the same cell is live.  Every borrow in the six crates
# sits in an accessor of a thread-local (`NAME.with(|v| ...)`); the rule holds for a function when its body calls nothing but
# the methods below on the borrowed value - then no code runs while the borrow is live that could borrow again.
BORROW_ALLOWED = {'with', 'borrow', 'borrow_mut', 'last', 'is_some', 'is_none', 'is_empty', 'len', 'push', 'pop', 'clear', 'Some', 'Ok', 'Err', 'new', 'copied', 'cloned'}


def fn_body(src, pos):
    """text of the body of the function enclosing pos (brace matching on string-blanked text)"""
    starts = [m for m in re.finditer(r'\bfn\s+(?:r#\w+|\w+)', src[:pos])]
    if not starts:
        return None
    b = src.find('{', starts[-1].end())
    if b < 0 or b > pos:
        return None
    d = 0
    for i in range(b, len(src)):
        if src[i] == '{':
            d += 1
        elif src[i] == '}':
            d -= 1
            if d == 0:
                return src[b:i + 1] if i >= pos else None
    return None


def PARSER_ATTR_NAMES(texts):
    """functions carrying a packrat / tracable attribute: their expansion touches the memo thread-local"""
    out = set()
    for rel, src in texts:
        for m in re.finditer(r'#\[(?:packrat_parser|tracable_parser|recursive_parser)\][^{;]*?\bfn\s+(r#\w+|\w+)', src):
            out.add(m.group(1))
    return out


def borrow_local():
    """-> (n_sites_ok, [description of each borrow site the rule does not cover])"""
    ok, bad = 0, []
    texts = []
    for crate in CRATES:
        for rel, raw in crate_text(crate):
            src = front.blank_strings(raw)
            texts.append((rel, re.sub(r'//[^\n]*', lambda m: ' ' * len(m.group(0)), src)))
    # functions of the six crates that may borrow (by NAME, over-approximated): those whose body borrows or touches a
    # thread-local, and those that call one of them; a call of any other name (std methods, pure helpers) cannot borrow the cell
    bodies = {}
    for rel, src in texts:
        for m in re.finditer(r'\bfn\s+(r#\w+|\w+)', src):
            b = fn_body(src, src.find('{', m.end()) if src.find('{', m.end()) >= 0 else m.end())
            if b is not None:
                bodies.setdefault(m.group(1), []).append(b)
    tainted = set(n for n, bs in bodies.items() if any(re.search(r'\.borrow(?:_mut)?\(\)|\.\s*with\s*\(\s*\|', b) or re.search(r'packrat', b) for b in bs))
    grew = True
    while grew:
        grew = False
        for n, bs in bodies.items():
            if n not in tainted and any(set(re.findall(r'\b(\w+)\s*\(', b)) & tainted for b in bs):
                tainted.add(n)
                grew = True
    for rel, src in texts:
        if True:
            for m in re.finditer(r'\.borrow(?:_mut)?\(\)', src):
                body = fn_body(src, m.start())
                fn = enclosing_fn(src, m.start())
                if body is None or not re.search(r'\b[A-Z][A-Z0-9_]*\s*\.\s*with\s*\(\s*\|', body):
                    bad.append('%s %s: borrow outside a thread-local accessor' % (rel, fn))
                    continue
                calls = (set(re.findall(r'\b(\w+)\s*\(', body)) - BORROW_ALLOWED) & (tainted | PARSER_ATTR_NAMES(texts))
                macros = set(re.findall(r'\b(\w+)!\s*[\(\[\{]', body)) - {'vec', 'matches', 'debug_assert'}
                if calls or macros:
                    bad.append('%s %s: the accessor also calls %s' % (rel, fn, ', '.join(sorted(calls | macros))))
                else:
                    ok += 1
    return ok, bad
