"""gvc faithful: per-production verification condition
   "the leaves of the returned node, in derive(Node) order, are exactly the fragments consumed, in order, once each".

Each parser function body is evaluated symbolically.  Every call of a named production / primitive /
opaque combinator instance introduces a fresh ATOM standing for "the fragments that call consumed", which by
the callee's own faithful contract are also the leaves of the value it returned (modular: callee contracts,
never callee bodies).  The evaluation yields
    cons : the atoms in consumption order                       (left-hand side)
    out  : the structure of the returned value over the atoms   (right-hand side = in-order flattening)
and the VC is  concat(cons) == concat(flatten(out)), emitted as a Verus lemma over Seq<int> variables.
A dropped token, a token stored twice, swapped fields, a `terminated`/`preceded` that throws away a consuming
parser, a `peek` whose output is stored: each makes the two sides differ, and the lemma is not provable.
"""
from .front import ParseError

NOM_SEQ = {'pair', 'tuple', 'triple'}
NOM_WRAP_ATOM = {'opt', 'many0', 'many1', 'alt'}          # inner must be faithful on its own; result is one atom
NOM_SAME = {'context', 'all_consuming', 'complete'}
NONCONSUMING = {'peek', 'not'}
PRIMS = {'tag', 'tag_no_case', 'is_a', 'is_not', 'take', 'take_until', 'take_while', 'take_while1', 'one_of', 'none_of',
         'char', 'digit1', 'alpha1', 'alphanumeric1', 'space1', 'space0', 'multispace1', 'multispace0', 'anychar',
         'hex_digit1', 'oct_digit1', 'line_ending', 'not_line_ending', 'take_till', 'take_till1'}
ZERO = {'eof'}


class Unsupported(Exception):
    pass


class Ctx:
    def __init__(self, fn, table, combinators):
        self.fn = fn
        self.table = table              # name -> Fn for parser functions
        self.combinators = combinators  # name -> Fn for utils.rs combinators
        self.n = 0
        self.atoms = []                 # (atom, description)
        self.sub_vcs = []               # (label, cons, out) of nested expressions that must be faithful on their own
        self.notes = []
        self.items = {}                 # atom of a many0/many1 -> (cons, out) of ONE item (rule L3)

    def fresh(self, desc):
        self.n += 1
        a = 'v%d' % self.n
        self.atoms.append((a, desc))
        return a


# ---- out trees ----
def A(a):
    return ('A', a)


def T(xs):
    return ('T', list(xs))


UNIT = ('T', [])


def flatten(o):
    if o[0] == 'A':
        return [o[1]]
    if o[0] == 'S':
        return list(o[1])
    r = []
    for x in o[1]:
        r += flatten(x)
    return r


def callee_name(e):
    if e[0] in ('var', 'path'):
        return e[1].split('::')[-1] if e[0] == 'path' and e[1].startswith('nom::') else e[1]
    return None


def eval_parser(e, ctx, env):
    """e denotes a parser (something applied to a Span). returns (cons, out)"""
    t = e[0]
    if t in ('var', 'path'):
        name = e[1]
        if name in env:           # combinator parameter (f, g, h) or local closure
            v = env[name]
            if v[0] == 'parser':
                return v[1], v[2]
            raise Unsupported('variable %s used as a parser' % name)
        if name in ZERO:
            return [], UNIT
        if name in ctx.table or name in PRIMS:
            a = ctx.fresh(name)
            return [a], A(a)
        raise Unsupported('unknown parser %s' % name)
    if t == 'closure':
        # `|s| { ... }` inline parser closures: evaluate body as a function body over its own s
        raise Unsupported('inline closure parser')
    if t == 'call':
        f = callee_name(e[1])
        args = e[2]
        if f is None:
            raise Unsupported('computed parser expression')
        if f in ctx.combinators and f not in ('list',):
            return eval_combinator(f, args, ctx, env)
        if f == 'list':
            (c1, o1), (c2, o2) = eval_parser(args[0], ctx, env), eval_parser(args[1], ctx, env)
            ctx.sub_vcs.append(('list.sep', c1, o1))
            ctx.sub_vcs.append(('list.item', c2, o2))
            a = ctx.fresh('list(..)')
            return [a], A(a)
        if f in ('symbol', 'symbol_exact', 'keyword') or f in PRIMS:
            a = ctx.fresh('%s(%s)' % (f, ','.join(x[1] if x[0] == 'lit' else '..' for x in args)))
            return [a], A(a)
        if f in NOM_SEQ:
            parts = args[0][1] if (f == 'tuple' and args and args[0][0] == 'tuple') else args
            cons, outs = [], []
            for p_ in parts:
                c, o = eval_parser(p_, ctx, env)
                cons += c
                outs.append(o)
            return cons, T(outs)
        if f in NOM_WRAP_ATOM:
            parts = args[0][1] if (f == 'alt' and args and args[0][0] == 'tuple') else args
            for k, p_ in enumerate(parts):
                c, o = eval_parser(p_, ctx, env)
                ctx.sub_vcs.append(('%s.%d' % (f, k), c, o))
            a = ctx.fresh('%s(..)' % f)
            if f in ('many0', 'many1') and len(parts) == 1:
                ctx.items[a] = (c, o)
            return [a], A(a)
        if f in NOM_SAME:
            return eval_parser(args[-1], ctx, env)
        if f in NONCONSUMING:
            saved = list(ctx.sub_vcs)
            c, o = eval_parser(args[0], ctx, env)
            ctx.sub_vcs = saved       # nothing is consumed or kept inside a look-ahead: no obligation arises there
            # consumes nothing; if its output were stored its atoms would appear on the right only
            return [], o
        if f == 'terminated':
            c1, o1 = eval_parser(args[0], ctx, env)
            c2, o2 = eval_parser(args[1], ctx, env)
            return c1 + c2, o1
        if f == 'preceded':
            c1, o1 = eval_parser(args[0], ctx, env)
            c2, o2 = eval_parser(args[1], ctx, env)
            return c1 + c2, o2
        if f == 'many_till':
            c1, o1 = eval_parser(args[0], ctx, env)
            ctx.sub_vcs.append(('many_till.item', c1, o1))
            c2, o2 = eval_parser(args[1], ctx, env)
            a = ctx.fresh('many_till.items')
            return [a] + c2, T([A(a), o2])
        if f == 'map':
            c, o = eval_parser(args[0], ctx, env)
            return c, apply_fn(args[1], [o], ctx, env)
        # the rest of nom's vocabulary (not used by the pinned tree; here so that a change that starts
        # using one of them is analysed instead of being out of reach)
        if f in ('many0_count', 'many1_count'):
            c, o = eval_parser(args[0], ctx, env)
            ctx.sub_vcs.append(('%s.item' % f, c, o))
            a = ctx.fresh('%s(..)' % f)
            return [a], UNIT                      # consumes, returns only a number
        if f == 'value':
            c, o = eval_parser(args[1], ctx, env)
            return c, UNIT
        if f == 'recognize':
            c, o = eval_parser(args[0], ctx, env)
            return c, ('S', list(c))
        if f == 'consumed':
            c, o = eval_parser(args[0], ctx, env)
            return c, T([('S', list(c)), o])      # the span AND the output: leaves twice
        if f in ('verify', 'map_res', 'map_opt', 'cond', 'into', 'cut'):
            c, o = eval_parser(args[-1] if f == 'cond' else args[0], ctx, env)
            if f in ('map_res', 'map_opt'):
                return c, apply_fn(args[1], [o], ctx, env)
            return c, o
        if f == 'delimited':
            (c1, o1), (c2, o2), (c3, o3) = [eval_parser(a, ctx, env) for a in args]
            return c1 + c2 + c3, o2
        if f == 'separated_pair':
            (c1, o1), (c2, o2), (c3, o3) = [eval_parser(a, ctx, env) for a in args]
            return c1 + c2 + c3, T([o1, o3])
        if f in ('separated_list0', 'separated_list1', 'separated_nonempty_list'):
            (c1, o1), (c2, o2) = [eval_parser(a, ctx, env) for a in args]
            a1, a2 = ctx.fresh('separators'), ctx.fresh('items')
            ctx.sub_vcs.append(('%s.item' % f, c2, o2))
            return [a1, a2], A(a2)                # separators are consumed and dropped
        if f in ('map_parser', 'flat_map', 'and_then'):
            # the outer parser decides what is consumed; the value comes from a second parser run on that fragment,
            # which may leave part of it unread: consumption and leaves are not the same thing any more
            c1, o1 = eval_parser(args[0], ctx, env)
            inner = ctx.fresh('%s.inner' % f)
            return c1, A(inner)
        if f == 'success':
            return [], UNIT
        if f in ('fold_many0', 'fold_many1'):
            # lexer idiom: fold_many0(E, || a, |acc, item| concat(acc, item).unwrap()) : a ++ everything E consumed
            init, step = args[1], args[2]
            if (init[0] == 'closure' and not init[1] and init[2][0] == 'var' and step[0] == 'closure' and len(step[1]) == 2
                    and step[2] == ('method', ('call', ('var', 'concat'), [('var', step[1][0][1]), ('var', step[1][1][1])]), 'unwrap', [])):
                c1, o1 = eval_parser(args[0], ctx, env)
                ctx.sub_vcs.append(('fold_many.item', c1, o1))
                a = ctx.fresh('fold_many.items')
                acc = eval_value(init[2], ctx, env)
                return [a], ('S', flatten(acc) + [a])
            raise Unsupported('fold_many of unexpected shape')
        if f in ctx.table:
            raise Unsupported('parser %s called with arguments' % f)
        raise Unsupported('unknown combinator %s' % f)
    raise Unsupported('parser expression of kind %s' % t)


def eval_combinator(f, args, ctx, env):
    """user combinator of utils.rs: inline its `move |s| { .. }` body with the parameters bound"""
    fn = ctx.combinators[f]
    params = [p_ for p_ in fn.params]
    body = fn.closure_body
    if body is None:
        raise Unsupported('combinator %s has no analysable closure body' % f)
    env2 = {}
    for p_, a in zip(params, args):
        if p_ in fn.parser_params:
            c, o = eval_parser(a, ctx, env)
            env2[p_] = ('parser', c, o)
        else:
            env2[p_] = ('value', a)
    if f in ('symbol', 'symbol_exact', 'keyword'):
        a = ctx.fresh('%s(..)' % f)
        return [a], A(a)
    return eval_body(body, ctx, env2)


def bind(pat, out, env):
    if pat[0] == 'pvar':
        env[pat[1]] = ('out', out)
    elif pat[0] == 'pwild':
        pass
    elif pat[0] == 'ptuple':
        if out[0] == 'T' and len(out[1]) == len(pat[1]):
            for p_, o in zip(pat[1], out[1]):
                bind(p_, o, env)
        elif out[0] == 'A' and all(p_[0] == 'pwild' for p_ in pat[1]):
            pass
        elif out[0] == 'A':
            # destructuring an opaque value: its leaves can only be kept in order if every part is used
            # in order; model each part as a sub-atom sequence -> not supported generally
            raise Unsupported('destructuring an opaque value')
        else:
            raise Unsupported('pattern arity mismatch')
    else:
        raise Unsupported('pattern kind %s' % pat[0])


def eval_value(e, ctx, env):
    """expression building the result value -> out tree"""
    t = e[0]
    if t == 'var':
        if e[1] in env:
            v = env[e[1]]
            if v[0] == 'out':
                return v[1]
            if v[0] == 'value':
                return UNIT
            raise Unsupported('parser variable %s used as a value' % e[1])
        if e[1] == 's':
            return UNIT
        raise Unsupported('free variable %s in result' % e[1])
    if t == 'tuple':
        return T([eval_value(x, ctx, env) for x in e[1]])
    if t == 'struct':
        return T([eval_value(x, ctx, env) for _, x in e[2]])
    if t == 'ref':
        return eval_value(e[1], ctx, env)
    if t == 'macro' and e[1] == 'vec':
        return UNIT
    if t == 'path':
        return UNIT                      # unit-like enum variant / constant
    if t == 'lit':
        return UNIT
    if t == 'call':
        f = e[1]
        name = f[1] if f[0] in ('var', 'path') else None
        if name in ('Box::new', 'Some', 'Ok', 'Vec::from', 'into_locate') or (name and (name[:1].isupper() or '::' in name) and not name.startswith('nom')):
            # constructors: the leaves of the value are the leaves of its arguments, in order
            if name == 'into_locate':
                o = eval_value(e[2][0], ctx, env)
                return ('S', flatten(o))
            return T([eval_value(x, ctx, env) for x in e[2]])
        if name == 'concat':
            a, b = eval_value(e[2][0], ctx, env), eval_value(e[2][1], ctx, env)
            return ('S', flatten(a) + flatten(b))
        raise Unsupported('call of %s in result expression' % name)
    if t == 'method':
        if e[2] in ('unwrap', 'into', 'clone', 'to_vec', 'into_iter'):
            return eval_value(e[1], ctx, env)
        # items.into_iter().fold(a, |acc, x| concat(acc, x).unwrap()) : a ++ everything the items consumed, in order
        if e[2] == 'fold' and len(e[3]) == 2 and e[3][1][0] == 'closure' and len(e[3][1][1]) == 2 and all(p_[0] == 'pvar' for p_ in e[3][1][1]):
            acc, x = e[3][1][1][0][1], e[3][1][1][1][1]
            if e[3][1][2] == ('method', ('call', ('var', 'concat'), [('var', acc), ('var', x)]), 'unwrap', []):
                items = eval_value(e[1], ctx, env)
                init = eval_value(e[3][0], ctx, env)
                return ('S', flatten(init) + flatten(items))
        raise Unsupported('method %s in result expression' % e[2])
    if t == 'field':
        raise Unsupported('field access in result expression')
    if t == 'block':
        return eval_stmts(e[1], ctx, dict(env), want_value=True)[1]
    if t == 'match' and len(e[2]) == 2:
        # `match v { Some(b) => A, None => B }` (either order) is `if let Some(b) = v { A } else { B }`
        arms = {tuple(pt[:1]): (pt, body) for pt, body in e[2]}
        if ('Some',) in arms and ('None',) in arms and len(arms[('Some',)][0]) == 4 and arms[('None',)][0] == ['None']:
            def blk(x):
                return x if x[0] == 'block' else ('block', [('ret', x)])
            pt = arms[('Some',)][0]
            return eval_value(('if', ('iflet', ('pother', pt), e[1]), blk(arms[('Some',)][1]), blk(arms[('None',)][1])), ctx, env)
        raise Unsupported('match of unexpected shape in a value position')
    if t == 'if' and e[1][0] == 'iflet':
        # `if let Some(b) = opt_value { A } else { B }`: A with b bound; B must be A without the optional part
        _, pat, scrut = e[1]
        if pat[0] == 'pother' and pat[1][:2] == ['Some', '('] and len(pat[1]) == 4 and scrut[0] == 'var' and scrut[1] in env and e[3] is not None:
            ov = env[scrut[1]]
            if ov[0] != 'out':
                raise Unsupported('if-let on a non-value')
            env_a = dict(env)
            env_a[pat[1][2]] = ('out', ov[1])
            oa = eval_value(e[2], ctx, env_a)
            ob = eval_value(e[3], ctx, dict(env))
            opt_atoms = set(flatten(ov[1]))
            if [x for x in flatten(oa) if x not in opt_atoms] != flatten(ob):
                raise Unsupported('if-let branches disagree beyond the optional part')
            return oa
        raise Unsupported('if-let of unexpected shape')
    raise Unsupported('result expression of kind %s' % t)


def apply_fn(f, outs, ctx, env):
    """map(.., f): f is a closure or a path"""
    if f[0] == 'closure':
        env2 = dict(env)
        pats = f[1]
        if len(pats) != len(outs):
            raise Unsupported('closure arity')
        for p_, o in zip(pats, outs):
            bind(p_, o, env2)
        return eval_value(f[2], ctx, env2)
    if f[0] in ('path', 'var'):
        return T(outs)
    raise Unsupported('map function of kind %s' % f[0])


def normalize_early_return(stmts):
    """`if C { ..; return X; } REST`  is  `if C { ..; X } else { REST }` (the conditional has no else branch and its block
    ends in `return`): the form the evaluation knows"""
    for k, st in enumerate(stmts):
        if st[0] in ('expr', 'ret') and st[1][0] == 'if' and st[1][3] is None and st[1][2][0] == 'block' and st[1][2][1]:
            last = st[1][2][1][-1]
            if last[0] in ('expr', 'ret') and last[1][0] == 'return' and k + 1 < len(stmts):
                then = ('block', list(st[1][2][1][:-1]) + [('ret', last[1][1])])
                rest = ('block', normalize_early_return(list(stmts[k + 1:])))
                return list(stmts[:k]) + [('ret', ('if', st[1][1], then, rest))]
    return stmts


def tok_pattern(toks):
    """identifier / `_` / (possibly nested) tuple of those, from the token list of a `for` header"""
    def one(i):
        if i >= len(toks):
            return None, i
        if toks[i] == '(':
            parts = []
            i += 1
            while i < len(toks) and toks[i] != ')':
                p_, i = one(i)
                if p_ is None:
                    return None, i
                parts.append(p_)
                if i < len(toks) and toks[i] == ',':
                    i += 1
            return (('ptuple', parts), i + 1) if i < len(toks) else (None, i)
        if toks[i] == '_':
            return ('pwild',), i + 1
        if isinstance(toks[i], str) and toks[i].isidentifier() and toks[i] not in ('mut', 'ref'):
            return ('pvar', toks[i]), i + 1
        return None, i
    p_, i = one(0)
    return p_ if p_ is not None and i == len(toks) else None


def fold_rule(e, ctx, env):
    """(L3) `for PAT in ITEMS { let ..; ACC = VALUE; }` over the items of a many0/many1 (one atom = what all items consumed,
    in order): a fold.  Generated induction: with ACC standing for one fresh atom (its leaves so far) and PAT bound to the
    structure of ONE item, the leaves of VALUE must be  ACC ++ what that item consumed  (sub-obligation `for.step`); then
    after the loop the leaves of ACC are its leaves before the loop followed by everything the items consumed."""
    hdr, body = e[1], e[2][1]
    src = hdr[-1]
    pat = tok_pattern(hdr[1:-2])
    if pat is None or not isinstance(src, str) or src not in env or env[src][0] != 'out' or env[src][1][0] != 'A':
        return False
    atom = env[src][1][1]
    if atom not in ctx.items or not body:
        return False
    last = body[-1]
    if not (last[0] == 'assign' and last[1][0] == 'var' and last[1][1] in env and env[last[1][1]][0] == 'out'):
        return False
    if any(not (st[0] == 'let' and st[1][0] == 'pvar') for st in body[:-1]):
        return False
    tgt = last[1][1]
    c_item, o_item = ctx.items[atom]
    acc = ctx.fresh('loop accumulator %s' % tgt)
    env2 = dict(env)
    env2[tgt] = ('out', A(acc))
    bind(pat, o_item, env2)
    for st in body[:-1]:
        bind(st[1], eval_value(st[2], ctx, env2), env2)
    new = eval_value(last[2], ctx, env2)
    ctx.sub_vcs.append(('for.step', [acc] + list(c_item), new))
    env[tgt] = ('out', ('S', flatten(env[tgt][1]) + [atom]))
    del env[src]                      # the items are moved into the accumulator
    return True


def eval_stmts(stmts, ctx, env, want_value=False):
    stmts = normalize_early_return(list(stmts))
    cons = []
    for st in stmts:
        if st[0] == 'let':
            pat, e = st[1], st[2]
            # `let (s, X) = P(s)?;`
            if e[0] == 'try' and e[1][0] == 'call' and e[1][2] == [('var', 's')] and pat[0] == 'ptuple' and len(pat[1]) == 2 and pat[1][0] == ('pvar', 's'):
                c, o = eval_parser(e[1][1], ctx, env)
                cons += c
                bind(pat[1][1], o, env)
                continue
            # `let (_, X) = P(s)?;` / `let (t, X) = P(s)?;`: the parser runs on s but the remaining input it returns is dropped, so
            # whatever follows starts again at the same position: what P consumed is kept in X AND consumed again
            if e[0] == 'try' and e[1][0] == 'call' and e[1][2] == [('var', 's')] and pat[0] == 'ptuple' and len(pat[1]) == 2 and pat[1][0] != ('pvar', 's') and pat[1][0][0] in ('pvar', 'pwild', 'pother'):
                c, o = eval_parser(e[1][1], ctx, env)
                bind(pat[1][1], o, env)      # kept in the result, not counted as consumed: the body obligation cannot hold
                ctx.notes.append(('input-not-threaded', pat[1][1]))
                continue
            # F4 idiom: `let c = P(s); end_keywords(); let (s, c) = c?;`
            if e[0] == 'call' and e[2] == [('var', 's')] and pat[0] == 'pvar':
                c, o = eval_parser(e[1], ctx, env)
                env[pat[1]] = ('pending', c, o)
                continue
            if e[0] == 'try' and e[1][0] == 'var' and e[1][1] in env and env[e[1][1]][0] == 'pending' and pat[0] == 'ptuple' and len(pat[1]) == 2 and pat[1][0] == ('pvar', 's'):
                _, c, o = env[e[1][1]]
                cons += c
                bind(pat[1][1], o, env)
                continue
            # plain value let (lexers): `let a = concat(a, b).unwrap();`
            o = eval_value(e, ctx, env)
            bind(pat, o, env)
            continue
        if st[0] == 'expr':
            e = st[1]
            if e[0] == 'call' and e[1][0] == 'var' and e[1][1] in ('begin_keywords', 'end_keywords', 'begin_directive', 'end_directive'):
                continue
            if e[0] == 'loop' and e[1][0] == 'for' and len(e[1]) == 4 and e[1][2] == 'in' and e[2][0] == 'block' and len(e[2][1]) == 1:
                x, src = e[1][1], e[1][3]
                body = e[2][1][0]
                if src in env and env[src][0] == 'out' and body[0] == 'assign' and body[1][0] == 'var':
                    tgt = body[1][1]
                    rhs = body[2]
                    # (L2) for b in b { a = concat(a, b).unwrap(); }
                    if rhs == ('method', ('call', ('var', 'concat'), [('var', tgt), ('var', x)]), 'unwrap', []) and tgt in env and env[tgt][0] == 'out':
                        env[tgt] = ('out', ('S', flatten(env[tgt][1]) + flatten(env[src][1])))
                        continue
                    # (L1) for x in b { ret = if let Some(ret) = ret { Some(concat(ret, x).unwrap()) } else { Some(x) } }
                    join = ('if', ('iflet', ('pother', ['Some', '(', tgt, ')']), ('var', tgt)),
                            ('block', [('ret', ('call', ('path', 'Some'), [('method', ('call', ('var', 'concat'), [('var', tgt), ('var', x)]), 'unwrap', [])]))]),
                            ('block', [('ret', ('call', ('path', 'Some'), [('var', x)]))]))
                    if rhs == join and tgt in env and env[tgt][0] == 'out' and flatten(env[tgt][1]) == []:
                        env[tgt] = ('out', ('S', flatten(env[src][1])))
                        continue
            if e[0] == 'loop' and e[1][0] == 'for' and len(e[1]) >= 4 and e[1][-2] == 'in' and e[2][0] == 'block' and fold_rule(e, ctx, env):
                continue
            if e[0] == 'loop':
                raise Unsupported('for loop of unexpected shape')
            raise Unsupported('statement %s' % e[0])
        if st[0] == 'ret':
            e = st[1]
            if e[0] == 'call' and e[1] == ('path', 'Ok') or (e[0] == 'call' and e[1][0] in ('var', 'path') and e[1][1] == 'Ok'):
                tup = e[2][0]
                if tup[0] == 'tuple' and len(tup[1]) == 2 and tup[1][0] == ('var', 's'):
                    return cons, eval_value(tup[1][1], ctx, env)
                raise Unsupported('Ok(..) of unexpected shape')
            if e[0] == 'call' and e[2] == [('var', 's')]:
                c, o = eval_parser(e[1], ctx, env)
                return cons + c, o
            if e[0] == 'var' and e[1] in env and env[e[1]][0] == 'pending':
                # `let ret = P(s); end_directive(); ret`
                _, c, o = env[e[1]]
                return cons + c, o
            if e[0] == 'if' and e[1][0] == 'iflet' and e[3] is not None:
                # `if let Some(b) = opt { .. Ok(..) } else { .. }` as the final expression of a lexer: both branches are
                # evaluated, each with what it knows about the optional fragment; what is KNOWN of the whole (the notes,
                # e.g. that reserved words are refused) is only what both branches establish
                _, pat, scrut = e[1]
                if pat[0] == 'pother' and pat[1][:2] == ['Some', '('] and len(pat[1]) == 4 and scrut[0] == 'var' and scrut[1] in env and env[scrut[1]][0] == 'out':
                    ov = env[scrut[1]]
                    n0 = len(ctx.notes)
                    env_a = dict(env)
                    env_a[pat[1][2]] = ('out', ov[1])
                    c1, o1 = eval_stmts(e[2][1], ctx, env_a)
                    notes_a = ctx.notes[n0:]
                    del ctx.notes[n0:]
                    c2, o2 = eval_stmts(e[3][1], ctx, dict(env))
                    notes_b = ctx.notes[n0:]
                    del ctx.notes[n0:]
                    kinds = set(k for k, _ in notes_a) & set(k for k, _ in notes_b)
                    ctx.notes.extend(n_ for n_ in notes_a if n_[0] in kinds)
                    opt_atoms = set(flatten(ov[1]))
                    if [x for x in flatten(o1) if x not in opt_atoms] != flatten(o2):
                        raise Unsupported('if-let branches disagree beyond the optional part')
                    return cons + c1, o1
                raise Unsupported('final if-let of unexpected shape')
            if e[0] == 'if' and e[1][0] != 'iflet' and e[3] is not None:
                cond = e[1]
                if cond[0] == 'call' and cond[1] == ('var', 'is_keyword'):
                    # identifier lexers: `if is_keyword(&a) { Err(..) } else { Ok((s, into_locate(a))) }`
                    th = e[2][1]
                    if not (len(th) == 1 and th[0][0] == 'ret' and th[0][1][0] == 'call' and th[0][1][1] in (('path', 'Err'), ('var', 'Err'))):
                        raise Unsupported('keyword check whose then-branch is not Err(..)')
                    ctx.notes.append(('keyword-check', cond[2][0]))
                    c2, o2 = eval_stmts(e[3][1], ctx, dict(env))
                    return cons + c2, o2
                # `if in_directive() { P1(s) } else { P2(s) }`: both branches are obligations of their own
                c1, o1 = eval_stmts(e[2][1], ctx, dict(env))
                c2, o2 = eval_stmts(e[3][1], ctx, dict(env))
                ctx.sub_vcs.append(('if.then', c1, o1))
                ctx.sub_vcs.append(('if.else', c2, o2))
                a = ctx.fresh('if(..)')
                return cons + [a], A(a)
            if want_value:
                return cons, eval_value(e, ctx, env)
            raise Unsupported('final expression of kind %s' % e[0])
        raise Unsupported('statement kind %s' % st[0])
    raise Unsupported('body without final expression')


def eval_body(block, ctx, env):
    return eval_stmts(block[1], ctx, env)


def analyse(fn, table, combinators):
    """returns dict(status='vc'|'unsupported', vcs=[(label, cons, flat_out)], atoms, reason)"""
    ctx = Ctx(fn, table, combinators)
    try:
        cons, out = eval_body(fn.ast, ctx, {})
    except Unsupported as ex:
        return dict(status='unsupported', reason=str(ex), vcs=[], atoms=[], notes=[])
    vcs = [('body', cons, flatten(out))]
    for lab, c, o in ctx.sub_vcs:
        vcs.append((lab, c, flatten(o)))
    return dict(status='vc', vcs=vcs, atoms=ctx.atoms, reason='', notes=ctx.notes)
