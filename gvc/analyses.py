"""gvc analyses other than faithful: nullable/manyok, effects (thread-local frame), paired begin/end,
identifier rules, top-level shape rules, panic-site inventory.  Each check is modular: a function is
checked against the DECLARED summaries of its callees; the summaries are the least fixpoint over the
call graph, recomputed from the source on every run."""
import json
import os
import re
import time

from . import front
from .faithful import PRIMS

VERIF = os.path.dirname(os.path.dirname(os.path.abspath(__file__)))
REPO = front.REPO


def walk(e):
    """all sub-nodes of an AST node (pre-order)"""
    if isinstance(e, tuple):
        yield e
        for x in e[1:]:
            for y in walk(x):
                yield y
    elif isinstance(e, list):
        for x in e:
            for y in walk(x):
                yield y


def called_names(ast):
    out = set()
    for n in walk(ast):
        if n[0] in ('var', 'path') and isinstance(n[1], str):
            out.add(n[1])
    return out


def fail(fn, label, kind, props, f, snippet=''):
    return dict(fn=fn, kind=kind, label=label, props=props, repo='%s:%d' % (f.file, f.line) if f is not None else None,
                spec='gvc', snippet=snippet, notes=[])


# =====================================================================================
# nullable: may the parser succeed without consuming?   (least fixpoint)
# =====================================================================================
NULLABLE_PRIMS = {'space0', 'multispace0', 'take_while', 'take_till', 'not_line_ending', 'success'}


def nullable_expr(e, N, env):
    t = e[0]
    if t in ('var', 'path'):
        n = e[1]
        if n in env:
            return env[n]
        if n == 'eof':
            return True
        if n in NULLABLE_PRIMS:
            return True
        if n in PRIMS:
            return False
        return N.get(n, False)
    if t == 'call':
        f = e[1][1] if e[1][0] in ('var', 'path') else None
        a = e[2]
        if f in ('tag', 'tag_no_case'):
            return a[0][0] == 'lit' and a[0][1] in ('""',)
        if f in ('symbol', 'symbol_exact', 'keyword'):
            return a[0][0] == 'lit' and a[0][1] == '""'
        if f in PRIMS:
            return f in NULLABLE_PRIMS
        if f in ('opt', 'many0', 'many0_count', 'peek', 'not', 'fold_many0', 'cond', 'separated_list0'):
            return True
        if f in ('many1', 'many1_count', 'map', 'context', 'all_consuming', 'complete', 'verify', 'map_res', 'map_opt', 'recognize', 'consumed', 'cut', 'into', 'ws', 'no_ws', 'fold_many1'):
            return nullable_expr(a[0], N, env)
        if f == 'value':
            return nullable_expr(a[1], N, env)
        if f == 'alt':
            parts = a[0][1] if a and a[0][0] == 'tuple' else a
            return any(nullable_expr(x, N, env) for x in parts)
        if f in ('pair', 'tuple', 'triple', 'terminated', 'preceded', 'delimited', 'separated_pair'):
            parts = a[0][1] if (f == 'tuple' and a and a[0][0] == 'tuple') else a
            return all(nullable_expr(x, N, env) for x in parts)
        if f == 'many_till':
            return nullable_expr(a[1], N, env)
        if f == 'list':
            return nullable_expr(a[1], N, env)
        if f in ('paren', 'paren_exact', 'bracket', 'brace', 'apostrophe_brace'):
            return False
        if f in ('separated_list1',):
            return nullable_expr(a[1], N, env)
        return N.get(f, False)
    return False


def nullable_body(block, N, env=None):
    env = dict(env or {})
    res = True
    for st in block[1]:
        if st[0] == 'let':
            e = st[2]
            if e[0] == 'try' and e[1][0] == 'call' and e[1][2] == [('var', 's')]:
                res = res and nullable_expr(e[1][1], N, env)
            elif e[0] == 'call' and e[2] == [('var', 's')]:
                res = res and nullable_expr(e[1], N, env)
        elif st[0] == 'ret':
            e = st[1]
            if e[0] == 'call' and e[2] == [('var', 's')]:
                res = res and nullable_expr(e[1], N, env)
            elif e[0] == 'if' and e[3] is not None:
                a = nullable_body(e[2], N, env) if e[2][0] == 'block' else True
                b = nullable_body(e[3], N, env) if e[3][0] == 'block' else True
                res = res and (a or b)
    return res


def repeated_args(ast):
    """(combinator, argument expressions that are repeated) for every repetition in the body"""
    for n in walk(ast):
        if n[0] == 'call' and n[1][0] in ('var', 'path'):
            f = n[1][1]
            if f in ('many0', 'many1', 'many0_count', 'many1_count', 'fold_many0', 'fold_many1') and n[2]:
                yield f, [n[2][0]]
            elif f == 'many_till' and n[2]:
                yield f, [n[2][0]]
            elif f == 'list' and len(n[2]) == 2:
                yield f, [('call', ('var', 'pair'), [n[2][0], n[2][1]])]


def nullable_run(fns, table, comb):
    t0 = time.time()
    N = {n: False for n in table}
    changed = True
    rounds = 0
    while changed:
        changed = False
        rounds += 1
        for n, f in table.items():
            if not N[n] and nullable_body(f.ast, N):
                N[n] = True
                changed = True
    failures = []
    checked = 0
    for n, f in sorted(table.items()):
        # modular re-check of the summary
        if nullable_body(f.ast, N) != N[n]:
            failures.append(fail(n, 'nullable.summary-inconsistent.%s' % n, 'nullable summary is not a fixpoint', ['C15', 'C08'], f))
        for comb_name, args in repeated_args(f.ast):
            checked += 1
            for a in args:
                if nullable_expr(a, N, {}):
                    failures.append(fail(n, 'manyok.%s.%s' % (n, comb_name),
                                         'the repeated parser of %s may succeed without consuming (repetition fails or never ends)' % comb_name,
                                         ['C15', 'C08'], f))
    return dict(N=N, failures=failures, checked=checked, rounds=rounds, wall_s=time.time() - t0)


# =====================================================================================
# left recursion: every cycle of "may be called before anything is consumed" passes through a #[recursive_parser] production
# =====================================================================================
def first_expr(e, N, table):
    """productions that may be invoked at the position where parser expression e starts"""
    t = e[0]
    if t in ('var', 'path'):
        n = e[1]
        return {n} if n in table else set()
    if t == 'call':
        f = e[1][1] if e[1][0] in ('var', 'path') else None
        a = e[2]
        if f is None:
            return set()
        if f in PRIMS or f in ('tag', 'tag_no_case', 'symbol', 'symbol_exact', 'keyword'):
            return set()
        if f in ('alt',):
            parts = a[0][1] if a and a[0][0] == 'tuple' else a
            out = set()
            for x in parts:
                out |= first_expr(x, N, table)
            return out
        if f in ('pair', 'tuple', 'triple', 'terminated', 'preceded', 'delimited', 'separated_pair', 'many_till', 'list', 'separated_list0', 'separated_list1'):
            parts = a[0][1] if (f == 'tuple' and a and a[0][0] == 'tuple') else a
            out = set()
            for x in parts:
                out |= first_expr(x, N, table)
                if not nullable_expr(x, N, {}):
                    break
            return out
        if f in ('paren', 'paren_exact', 'bracket', 'brace', 'apostrophe_brace'):
            return set()                  # the opening symbol is consumed first
        if f == 'value':
            return first_expr(a[1], N, table) if len(a) > 1 else set()
        if f in table:
            return {f}
        out = set()
        for x in a:                       # opt, many0, many1, map, peek, not, context, ws, ...: whatever they wrap starts here
            if isinstance(x, tuple) and x and x[0] in ('call', 'var', 'path'):
                out |= first_expr(x, N, table)
        return out
    return set()


def first_body(block, N, table):
    out = set()
    for st in block[1]:
        e = st[2] if st[0] == 'let' else st[1] if st[0] in ('ret', 'expr') else None
        if e is None:
            continue
        p_ = None
        if e[0] == 'try' and e[1][0] == 'call' and e[1][2] == [('var', 's')]:
            p_ = e[1][1]
        elif e[0] == 'call' and e[2] == [('var', 's')]:
            p_ = e[1]
        elif e[0] == 'if' and e[3] is not None:
            for b in (e[2], e[3]):
                if b[0] == 'block':
                    out |= first_body(b, N, table)
            return out
        if p_ is None:
            continue
        out |= first_expr(p_, N, table)
        if not nullable_expr(p_, N, {}):
            return out
    return out


def leftrec_run(fns, table, comb, N):
    """A production that can reach itself before any input is consumed recurses forever unless the cycle passes through a production
    carrying #[recursive_parser] (nom-recursive makes the re-entry at the same position fail).  Stack exhaustion is an abort, not an Err."""
    failures = []
    G = {}
    for n, f in table.items():
        if f.ast:
            G[n] = first_body(f.ast, N, table) & set(table)
    plain = {n for n in G if not table[n].recursive}
    # cycles among productions WITHOUT the attribute (iterative DFS, colouring)
    color = {}
    bad = []
    for root in sorted(plain):
        if root in color:
            continue
        stack = [(root, iter(sorted(G[root] & plain)))]
        color[root] = 1
        path = [root]
        while stack:
            node, it = stack[-1]
            nxt = next(it, None)
            if nxt is None:
                color[node] = 2
                stack.pop()
                path.pop()
                continue
            if color.get(nxt) == 1:
                bad.append(path[path.index(nxt):] + [nxt])
            elif nxt not in color:
                color[nxt] = 1
                path.append(nxt)
                stack.append((nxt, iter(sorted(G[nxt] & plain))))
    seen = set()
    for cyc in bad:
        key = frozenset(cyc)
        if key in seen:
            continue
        seen.add(key)
        f = table[cyc[0]]
        failures.append(fail(cyc[0], 'leftrec.%s' % cyc[0], 'left recursion without #[recursive_parser]: %s can be re-entered before anything is consumed (unbounded recursion: the stack overflows)' % ' -> '.join(cyc),
                             ['C08', 'C02'], f))
    return dict(failures=failures, checked=len(plain), undecided=[], n_recursive=len(G) - len(plain))


# =====================================================================================
# top rules: shape of the four top-level productions  (C01 coverage, C15)
# =====================================================================================
def _binds(f):
    out = []
    for st in f.ast[1]:
        if st[0] == 'let' and st[2][0] == 'try' and st[2][1][0] == 'call':
            out.append((st[1], st[2][1][1]))
    return out


def top_run(fns, table, comb, N):
    """shape obligations on the four top-level productions.  A shape that is KNOWN to break the argument is a failure;
    a production that is missing or written in a form these rules do not know is a reason for indecision, never an alarm."""
    failures = []
    undecided = []
    checked = 0
    pairs = [('source_text', 'source_text_incomplete', 'description'), ('library_text', 'library_text_incomplete', 'library_description')]
    FALLIBLE = {'many1', 'tuple', 'pair', 'triple', 'terminated', 'preceded', 'alt', 'many_till', 'map', 'all_consuming'}

    def is_call(e, name, args=None):
        return e[0] == 'call' and e[1] == ('var', name) and (args is None or e[2] == args)
    for strict, inc, item in pairs:
        fs, fi = table.get(strict), table.get(inc)
        if fs is None or fi is None:
            undecided.append('top-level production %s / %s not found (anchor lost): the shape rules of C15/C01 do not apply to this tree' % (strict, inc))
            continue
        bs, bi = _binds(fs), _binds(fi)
        if not bs or not bi:
            undecided.append('%s / %s are not sequences of binds any more (unknown shape)' % (strict, inc))
            continue
        checked += 4
        # every step hands the remaining input on: `let (s, x) = P(s)?;` (a step bound as `(_, x)` parses again what the
        # previous step consumed: the node then holds text twice and the two modes no longer build equal trees)
        for f, b_ in ((fs, bs), (fi, bi)):
            for pat, e in b_:
                if not (pat[0] == 'ptuple' and len(pat[1]) == 2 and pat[1][0] == ('pvar', 's')):
                    failures.append(fail(f.name, 'top.%s.remaining-input-is-threaded' % f.name, 'a step of the production does not rebind the remaining input `s`', ['C15', 'C01'], f))
                    break
        # leading trivia is taken first, once
        for f, b_ in ((fs, bs), (fi, bi)):
            if not is_call(b_[0][1], 'many0', [('var', 'white_space')]):
                undecided.append('%s does not start with many0(white_space) (unknown shape)' % f.name)
        # strict: ... many_till(item, eof) last  => coverage up to the end of the text
        if not is_call(bs[-1][1], 'many_till', [('var', item), ('var', 'eof')]):
            if is_call(bs[-1][1], 'many0') or is_call(bs[-1][1], 'many1'):
                failures.append(fail(strict, 'top.%s.reads-to-eof' % strict, 'the strict production ends with a repetition that stops at the first unparsable text instead of many_till(%s, eof)' % item, ['C01', 'C15'], fs))
            else:
                undecided.append('%s does not end with many_till(%s, eof) (unknown shape)' % (strict, item))
        # incomplete: same binds, last one many0(item); every bind is many0/opt => cannot fail
        if not is_call(bi[-1][1], 'many0', [('var', item)]):
            if is_call(bi[-1][1], 'many_till') or is_call(bi[-1][1], 'many1'):
                failures.append(fail(inc, 'top.%s.prefix-of-descriptions' % inc, 'the incomplete production ends with a repetition that can fail instead of many0(%s)' % item, ['C15', 'C01'], fi))
            else:
                undecided.append('%s does not end with many0(%s) (unknown shape)' % (inc, item))
        if [x[1] for x in bs[:-1]] != [x[1] for x in bi[:-1]] or len(bs) != len(bi):
            failures.append(fail(inc, 'top.%s.same-as-strict-except-last' % inc, 'strict and incomplete productions differ before the final repetition', ['C15'], fi))
        for pat, e in bi:
            if e[0] == 'call' and e[1] in (('var', 'many0'), ('var', 'opt')):
                if e[1] == ('var', 'many0'):
                    from .analyses import nullable_expr as ne
                    if ne(e[2][0], N, {}):
                        failures.append(fail(inc, 'top.%s.many0-of-nullable' % inc, 'many0 of a nullable parser fails', ['C15'], fi))
            elif (e[0] == 'call' and e[1][0] == 'var' and (e[1][1] in FALLIBLE or e[1][1] in table)) or (e[0] == 'var' and e[1] in table):
                failures.append(fail(inc, 'top.%s.only-many0-and-opt' % inc, 'a step of the incomplete production can fail', ['C15'], fi))
            else:
                undecided.append('%s: a step is neither many0(..) nor opt(..) nor a known fallible parser (unknown shape)' % inc)
        # the result keeps the binds in order
        rs, ri = fs.ast[1][-1], fi.ast[1][-1]
        if str(rs) .replace('SourceText', 'X') != str(ri).replace('SourceText', 'X'):
            failures.append(fail(inc, 'top.%s.same-result-shape' % inc, 'strict and incomplete productions build different values', ['C15'], fi))
    return dict(failures=failures, checked=checked, undecided=undecided)


def no_failure_run(fns):
    """nothing in the parser crate can produce nom::Err::Failure (or abort a many0/opt with it)"""
    failures = []
    checked = 0
    for f in fns:
        checked += 1
        src = front.blank_strings(f.body_src)
        for pat, what in ((r'\bcut\s*\(', 'cut(..)'), (r'Err::Failure\s*\(', 'Err::Failure'), (r'\bErr::Incomplete\s*\(', 'Err::Incomplete')):
            if re.search(pat, src):
                failures.append(fail(f.name, 'nofailure.%s' % f.name, 'the body uses %s: many0/opt/alt no longer absorb its errors' % what, ['C15'], f))
    # nom's streaming parsers answer Err::Incomplete at the end of the input, which many0 / opt / alt pass on instead of
    # absorbing: the whole parser crate must stay on the complete variants
    for rel, raw in crate_text('sv-parser-parser'):
        src = front.blank_strings(raw)
        src = re.sub(r'//[^\n]*', lambda m_: ' ' * len(m_.group(0)), src)
        checked += 1
        for m in re.finditer(r'\bstreaming\s*::', src):
            failures.append(fail('-', 'nofailure.streaming-parser', 'a nom streaming parser is used (Err::Incomplete at the end of the input is not absorbed by many0/opt/alt)', ['C15'],
                                 Dummy(rel, raw.count('\n', 0, m.start()) + 1)))
    return dict(failures=failures, checked=checked)


# =====================================================================================
# effects: thread-local frame conditions (C07, C17) and begin/end pairing (C13, C07)
# =====================================================================================
EXPECTED_TLS = {'IN_DIRECTIVE', 'CURRENT_VERSION'}


def crate_text(crate):
    out = []
    base = os.path.join(REPO, crate, 'src')
    for dp, dn, fs in os.walk(base):
        dn.sort()
        for f in sorted(fs):
            if f.endswith('.rs') and f != 'tests.rs':
                p = os.path.join(dp, f)
                raw = open(p, encoding='utf-8').read()
                # drop #[cfg(test)] / #[cfg(kani)] modules (tests and verification harnesses)
                while True:
                    m = re.search(r'#\[cfg\((?:test|kani)\)\]\s*mod\s+\w+\s*\{', raw)
                    if not m:
                        break
                    d, j = 0, m.end() - 1
                    while j < len(raw):
                        if raw[j] == '{':
                            d += 1
                        elif raw[j] == '}':
                            d -= 1
                            if d == 0:
                                break
                        j += 1
                    raw = raw[:m.start()] + raw[j + 1:]
                out.append((os.path.relpath(p, REPO), raw))
    return out


class Dummy:
    def __init__(self, file, line):
        self.file = file
        self.line = line


def _only_called_from(src, helper, allowed, depth=0):
    """every call of the non-public function `helper` in this source text sits inside one of the `allowed` functions (or inside a helper
    for which the same holds)"""
    if depth > 3 or re.search(r'\bpub(?:\([a-z]+\))?\s+fn\s+%s\b' % re.escape(helper), src):
        return False
    sites = [m for m in re.finditer(r'(?<![\w.])%s\s*\(' % re.escape(helper), src) if not re.search(r'\bfn\s+$', src[max(0, m.start() - 12):m.start()])]
    if not sites:
        return False
    for m in sites:
        enc = None
        for fm in re.finditer(r'\bfn\s+(\w+)', src[:m.start()]):
            enc = fm.group(1)
        if enc in allowed:
            continue
        if enc and enc != helper and _only_called_from(src, enc, allowed, depth + 1):
            continue
        return False
    return True


def entries_check(lib_raw=None):
    """every public parser entry (strict and incomplete alike) starts from the fresh state: it calls init() first"""
    if lib_raw is None:
        lib_raw = open(os.path.join(REPO, 'sv-parser-parser/src/lib.rs')).read()
    failures = []
    undecided = []
    entries = re.findall(r'pub fn (\w+)\(s: Span\)\s*->\s*IResult<[^{]*\{\s*([^}]*)\}', lib_raw)
    checked = len(entries)
    if len(entries) < 5:
        undecided.append('fewer than five public parser entries found in sv-parser-parser/src/lib.rs (anchor lost)')
    for name, body in entries:
        # a memoising / tracing attribute on an ENTRY wraps its body: the memo table would be consulted BEFORE init() clears it
        pre = lib_raw[:lib_raw.index('pub fn ' + name)]
        attrs = re.findall(r'#\[(\w+)\]', pre[pre.rfind('}') + 1:])
        for a_ in attrs:
            if a_ in ('packrat_parser', 'recursive_parser'):
                failures.append(fail(name, 'C07.entry-is-not-memoised.%s' % name, 'public entry %s carries #[%s]: its wrapper runs before init()' % (name, a_), ['C07', 'C17', 'C15', 'C20'],
                                     Dummy('sv-parser-parser/src/lib.rs', pre.count('\n') + 1)))
        # .. and hands the text to ITS production (the strict and the incomplete entry of the same grammar differ in nothing else)
        want_ = {'sv_parser': 'source_text', 'sv_parser_incomplete': 'source_text_incomplete', 'lib_parser': 'library_text',
                 'lib_parser_incomplete': 'library_text_incomplete', 'pp_parser': 'preprocessor_text'}.get(name)
        if want_:
            checked += 1
            calls_ = re.findall(r'\b(\w+)\s*\(\s*s\s*\)', body)
            calls_ = [c for c in calls_ if c != 'init']
            if calls_ and want_ not in calls_:
                failures.append(fail(name, 'C15.entry-runs-its-own-production.%s' % name, 'public entry %s runs %s instead of %s' % (name, ', '.join(calls_), want_), ['C15', 'C20', 'C01'],
                                     Dummy('sv-parser-parser/src/lib.rs', lib_raw[:lib_raw.index('pub fn ' + name)].count('\n') + 1)))
            elif not calls_:
                undecided.append('%s: the production the entry runs could not be read off its body' % name)
        if not re.match(r'init\([^;]*\);', re.sub(r'\s+', '', body)):
            failures.append(fail(name, 'C07.entry-calls-init-first.%s' % name, 'public entry %s does not call init() first' % name, ['C07', 'C17', 'C15', 'C20'], Dummy('sv-parser-parser/src/lib.rs', lib_raw[:lib_raw.index('pub fn ' + name)].count('\n') + 1)))
    # ---- init() resets everything, unconditionally (C07; a premise of C13, C15, C17, C20)
    m = re.search(r'fn init\([^)]*\)\s*\{([^}]*)\}', lib_raw)
    init_body = re.sub(r'\s+', '', m.group(1)) if m else ''
    checked += 1
    IP = ['C07', 'C13', 'C15', 'C17', 'C20']
    if m is None:
        undecided.append('fn init(..) not found in sv-parser-parser/src/lib.rs (anchor lost)')
    else:
        at_ = Dummy('sv-parser-parser/src/lib.rs', lib_raw[:m.start()].count('\n') + 1)
        cf_ = re.search(r'\b(if|match|while|for|loop|return)\b|\?', m.group(1))
        if cf_ and any(m.group(1).find(r_) > cf_.start() or m.group(1).find(r_) < 0 for r_ in ('nom_packrat::init!', 'clear_directive', 'clear_version')):
            # (control flow AFTER the three resets does not concern them)
            failures.append(fail('init', 'C07.init-resets-unconditionally', 'init() contains control flow: a reset that is skipped on some path leaves state behind', IP, at_))
        if re.search(r'#\s*\[', m.group(1)):
            failures.append(fail('init', 'C07.init-resets-in-every-build', 'a statement of init() carries an attribute (cfg): a reset that is compiled out in some build leaves state behind', IP, at_))
        for need in ('nom_packrat::init!();', 'clear_directive();', 'clear_version();'):
            if need not in init_body:
                failures.append(fail('init', 'C07.init-resets.%s' % need.strip('();').replace('::', '_').replace('!', ''), 'init() does not call %s' % need, IP, at_))
    # Error::Parse is the report of the STRICT parsers and of nothing else: it is constructed in parse_sv_pp / parse_lib_pp (unit
    # wrap proves: only from a parser Err, hence never in incomplete mode) and nowhere else in the six crates.  parse_*_str run the
    # preprocessor first: if the preprocessor (or anything else) constructed Error::Parse, incomplete mode could report it
    checked += 1
    for crate in ('sv-parser-pp', 'sv-parser', 'sv-parser-syntaxtree', 'sv-parser-error', 'sv-parser-macros', 'sv-parser-parser'):
        for rel, raw in crate_text(crate):
            src = front.blank_strings(raw)
            src = re.sub(r'//[^\n]*', lambda m: ' ' * len(m.group(0)), src)
            for m in re.finditer(r'\bError\s*::\s*Parse\b', src):
                line_end = src.find('\n', m.end())
                rest = src[m.end():line_end if line_end >= 0 else len(src)]
                before = src[src.rfind('\n', 0, m.start()) + 1:m.start()]
                if re.search(r'=>', rest) or re.search(r'\b(?:if|while)\s+let\b[^\n]*$', before) or re.search(r'matches!\s*\([^\n]*$', before) or re.search(r'\blet\s+(?:\w+\s*\(\s*)*$', before) or re.search(r'\|\s*$', before):
                    continue            # a pattern (match arm, if let, let-else, matches!, or-pattern), not a construction
                enc = None
                for fm in re.finditer(r'\bfn\s+(\w+)', src[:m.start()]):
                    enc = fm.group(1)
                if rel.endswith('sv-parser/src/lib.rs') and enc in ('parse_sv_pp', 'parse_lib_pp'):
                    continue
                if rel.endswith('sv-parser/src/lib.rs') and enc and _only_called_from(src, enc, {'parse_sv_pp', 'parse_lib_pp'}):
                    continue            # a private helper of the two strict/incomplete parsers (every call of it sits in them)
                if crate == 'sv-parser-error' and enc is None:
                    continue            # the declaration of the variant itself
                failures.append(fail(enc or '-', 'C15.parse-error-is-reported-by-the-strict-parsers-only', 'Error::Parse is constructed in %s (%s), outside parse_sv_pp / parse_lib_pp' % (enc or 'top level', rel),
                                     ['C15'], Dummy(rel, raw.count('\n', 0, m.start()) + 1)))
    return dict(failures=failures, checked=checked, undecided=undecided)



MUT_TYPES = r'Mutex|RwLock|Atomic\w+|RefCell|\bCell\b|UnsafeCell|Condvar'
ONCE_TYPES = r'OnceCell|OnceLock|LazyLock|\bLazy\b|\bOnce\b'
_KW_NOT_VARS = ('move', 'as', 'if', 'else', 'match', 'let', 'mut', 'ref', 'true', 'false', 'self', 'in', 'for', 'while', 'loop', 'return', 'unsafe', 'crate', 'super', 'dyn',
                'impl', 'where', 'fn', 'u8', 'u16', 'u32', 'u64', 'usize', 'i32', 'i64', 'isize', 'str', 'bool', 'char', 'f64', 'f32', '_')


def thread_local_spans(src):
    spans = []
    for m in re.finditer(r'thread_local!\s*[\(\{]', src):
        o = m.end() - 1
        d, j = 0, o
        close = {'(': ')', '{': '}'}[src[o]]
        while j < len(src):
            if src[j] == src[o]:
                d += 1
            elif src[j] == close:
                d -= 1
                if d == 0:
                    break
            j += 1
        spans.append((o, j))
    return spans


def classify_statics(src):
    """every `static` of a source text (strings blanked, comments removed) outside thread_local!:
    -> list of (verdict, name, type, match, detail); verdict in
       'mut'      static mut / interior mutability: state every call (and thread) reads and writes
       'once-dep' initialised once with data of the call that happens to come first
       'once-const' initialised once with a constant: not state
       'once-unknown' no initialiser found
       'data'     immutable data of primitive / &str / array type: not state
       'opaque'   immutable static of a type whose interior is not known here"""
    out = []
    tl = thread_local_spans(src)
    for m in re.finditer(r"(?<![\w'&])static\s+(mut\s+)?(\w+)\s*:\s*([^=;]+)", src):
        if any(a <= m.start() < b for a, b in tl):
            continue
        name, ty = m.group(2), m.group(3).strip()
        if m.group(1):
            out.append(('mut', name, ty, m, '`static mut`'))
        elif re.search(MUT_TYPES, ty):
            out.append(('mut', name, ty, m, 'interior mutability'))
        elif re.search(ONCE_TYPES, ty):
            inits = []
            for u in re.finditer(r'\b%s\s*\.\s*(get_or_init|get_or_try_init|get_mut_or_init|set|call_once)\s*\(' % re.escape(name), src):
                d, j = 0, u.end() - 1
                while j < len(src):
                    if src[j] in '([{':
                        d += 1
                    elif src[j] in ')]}':
                        d -= 1
                        if d == 0:
                            break
                    j += 1
                inits.append((u, src[u.end():j]))
            dep = None
            for u, e_ in inits:
                bound = set(re.findall(r'\b([a-z_]\w*)\b', ' '.join(re.findall(r'\|([^|]*)\|', e_))))
                for lm in re.finditer(r'\b(?:let|for)\s+((?:mut\s+)?[^=;{]*?)(?:=|\bin\b)', e_):
                    bound |= set(re.findall(r'\b([a-z_]\w*)\b', lm.group(1)))
                for lm in re.finditer(r'\(([^()]*)\)\s*=>', e_):
                    bound |= set(re.findall(r'\b([a-z_]\w*)\b', lm.group(1)))
                for v in re.finditer(r'(?<![\w.:])([a-z_]\w*)\b(?!\s*(?:\(|::|!))', e_):
                    w = v.group(1)
                    if w in bound or w in _KW_NOT_VARS:
                        continue
                    dep = (u, w)
                    break
                if dep:
                    break
            if dep:
                out.append(('once-dep', name, ty, dep[0], dep[1]))
            elif inits or re.search(r'=\s*(?:\w+::)*(?:LazyLock|Lazy)\s*::\s*new', src[m.end():m.end() + 80]):
                out.append(('once-const', name, ty, m, ''))
            else:
                out.append(('once-unknown', name, ty, m, ''))
        elif re.match(r"^(?:&|'static|\s|\[|\]|;|,|\(|\)|\d+|[A-Z_][A-Z0-9_]*|u8|u16|u32|u64|u128|usize|i8|i16|i32|i64|i128|isize|bool|char|str|f32|f64)*$", ty):
            out.append(('data', name, ty, m, ''))
        else:
            out.append(('opaque', name, ty, m, ''))
    return out


def stateless_check():
    """frame condition of everything outside the parser crate: no state that outlives a call - no thread_local, no `static mut`,
    no static with interior mutability, no once-initialised static filled with data of a call - so a preprocess/parse wrapper can read
    nothing but its arguments and the files it opens.  Immutable data and constant-initialised once-cells are not state."""
    failures = []
    undecided = []
    checked = 0
    for crate in ('sv-parser-pp', 'sv-parser', 'sv-parser-syntaxtree', 'sv-parser-error', 'sv-parser-macros'):
        for rel, raw in crate_text(crate):
            src = front.blank_strings(raw)
            src = re.sub(r'//[^\n]*', lambda m: ' ' * len(m.group(0)), src)
            checked += 1
            def at(m):
                return Dummy(rel, raw.count('\n', 0, m.start()) + 1)
            for m in re.finditer(r'thread_local!', src):
                failures.append(fail('-', 'C07.state-outside-parser-crate', 'per-thread state in %s (thread_local!) that no entry point resets' % crate, ['C07', 'C20'], at(m)))
            for m in re.finditer(r'lazy_static!', src):
                seg = src[m.end():m.end() + 600]
                if re.search(MUT_TYPES, seg):
                    failures.append(fail('-', 'C07.state-outside-parser-crate', 'lazy_static! holding mutable state in %s' % crate, ['C07', 'C19', 'C20'], at(m)))
                else:
                    undecided.append('%s: lazy_static!: lazily initialised global' % rel)
            for verdict, name, ty, m, detail in classify_statics(src):
                if verdict in ('mut', 'once-dep'):
                    failures.append(fail('-', 'C07.state-outside-parser-crate', 'global state in %s: static %s: %s (%s)' % (crate, name, ty[:40], detail), ['C07', 'C19', 'C20'], at(m)))
                elif verdict in ('once-unknown', 'opaque'):
                    undecided.append('%s: static %s: %s - whether it holds state is not decided' % (rel, name, ty[:40]))
    return dict(failures=failures, checked=checked, undecided=undecided)


def shared_check():
    """ownership/frame condition behind C19: no state reachable from two threads.  Every `static` of the six crates is either
    inside thread_local! or immutable data; nothing uses process-global mutators; nobody claims Send/Sync by hand; no
    threads are spawned; the unsafe blocks are the known ones (they touch their arguments only)."""
    failures = []
    undecided = []
    checked = 0
    base_p = os.path.join(VERIF, 'gvc', 'baseline.json')
    known_unsafe = set(tuple(x) for x in json.load(open(base_p)).get('unsafe_sites', [])) if os.path.exists(base_p) else set()
    MUT = r'Mutex|RwLock|Atomic\w+|RefCell|\bCell\b|UnsafeCell|Condvar'
    ONCE = r'OnceCell|OnceLock|LazyLock|\bLazy\b|\bOnce\b'
    for crate in ('sv-parser-parser', 'sv-parser-pp', 'sv-parser', 'sv-parser-syntaxtree', 'sv-parser-error', 'sv-parser-macros'):
        for rel, raw in crate_text(crate):
            src = front.blank_strings(raw)
            src = re.sub(r'//[^\n]*', lambda m: ' ' * len(m.group(0)), src)
            checked += 1
            def at(m):
                return Dummy(rel, raw.count('\n', 0, m.start()) + 1)
            for verdict, name, ty, m, detail in classify_statics(src):
                checked += 1
                if verdict == 'mut' and detail == '`static mut`':
                    failures.append(fail('-', 'C19.shared-state.static-mut.%s' % name, '`static mut %s`: state every thread reads and writes' % name, ['C19', 'C07'], at(m)))
                elif verdict == 'mut':
                    failures.append(fail('-', 'C19.shared-state.static.%s' % name, 'static %s: %s is mutable state shared by all threads' % (name, ty[:60]), ['C19', 'C07'], at(m)))
                elif verdict == 'once-dep':
                    failures.append(fail('-', 'C19.shared-state.once.%s' % name, 'static %s: %s is initialised by whichever call comes first with data of that call (`%s`) and then read by every thread' % (name, ty[:40], detail), ['C19', 'C07'], at(m)))
                elif verdict == 'once-unknown':
                    undecided.append('%s: static %s: %s is initialised once and shared by all threads; no initialiser was found, so whether results can depend on who initialises it is not decided' % (rel, name, ty[:60]))
            for m in re.finditer(r'lazy_static!', src):
                checked += 1
                seg = src[m.end():m.end() + 600]
                if re.search(MUT, seg):
                    failures.append(fail('-', 'C19.shared-state.lazy_static', 'lazy_static! holding mutable state shared by all threads', ['C19', 'C07'], at(m)))
                else:
                    undecided.append('%s: lazy_static!: shared lazily initialised state' % rel)
            for m in re.finditer(r'\b(?:env::)?(set_var|remove_var|set_current_dir)\s*\(', src):
                checked += 1
                failures.append(fail('-', 'C19.process-global.%s' % m.group(1), '%s(): changes process-wide state that calls on other threads read' % m.group(1), ['C19', 'C07'], at(m)))
            for m in re.finditer(r'unsafe\s+impl\b[^{;]*\b(Send|Sync)\b', src):
                checked += 1
                failures.append(fail('-', 'C19.manual-%s' % m.group(1), 'unsafe impl %s: thread safety asserted by hand' % m.group(1), ['C19'], at(m)))
            for m in re.finditer(r'\b(?:thread::spawn|thread::scope|rayon::|\.par_iter\(|tokio::spawn)', src):
                undecided.append('%s: the crate starts threads itself (%s)' % (rel, m.group(0)))
            for m in re.finditer(r'\bunsafe\s*\{', src):
                checked += 1
                ln = raw.count('\n', 0, m.start())
                line = re.sub(r'\s+', ' ', raw.split('\n')[ln]).strip()
                if (rel, line) not in known_unsafe:
                    undecided.append('%s:%d: unsafe block not in the committed list (could reach memory other threads use): %s' % (rel, ln + 1, line[:80]))
    return dict(failures=failures, checked=checked, undecided=undecided)


def direct_access_check(fns):
    """direct accesses to parser state from production bodies: the accessors a production calls itself.  The committed
    list (gvc/baseline.json) is what K7 stands for plus the directive bracketing of the grammar; any OTHER production that
    opens, closes, clears or consults the keyword-version stack changes which words are reserved where (C13), and any
    other direct access is a dependency of a memoised result on state outside the key (C17) that outlives the call (C07)"""
    failures = []
    checked = 0
    ACC = {'current_version', 'begin_keywords', 'end_keywords', 'clear_version', 'is_keyword', 'in_directive', 'begin_directive', 'end_directive', 'clear_directive'}
    VERSION = {'current_version', 'begin_keywords', 'end_keywords', 'clear_version'}
    base_p = os.path.join(VERIF, 'gvc', 'baseline.json')
    allowed = set(tuple(x) for x in json.load(open(base_p)).get('direct_state_access', [])) if os.path.exists(base_p) else set()
    for f in fns:
        if f.ast and f.name not in ACC and f.name != 'init':
            for c in sorted(called_names(f.ast) & ACC):
                checked += 1
                if (f.name, c) not in allowed:
                    failures.append(fail(f.name, 'C17.direct-state-access.%s.%s' % (f.name, c),
                                         '%s consults/changes parser state through %s(): a result that depends on state outside the memo key (and a side effect that a memo hit skips)' % (f.name, c),
                                         ['C17', 'C07'] + (['C13'] if c in VERSION else []), f))
    return dict(failures=failures, checked=checked)


def shadow_check(fns):
    """ordered choice: in `alt((.., tag(A), .., tag(B), ..))` an alternative whose literal has an EARLIER literal of the same alt
    as a proper prefix can never match where it should (PEG: the earlier one wins and the rest is left over).  For the lexers
    of the preprocessor grammar that changes what a macro body / a directive consists of (C11, C05, C06)."""
    failures = []
    checked = 0
    for f in fns:
        src = f.body_src
        for m in re.finditer(r'\balt\s*\(\s*\(', src):
            o = m.end() - 1
            d, j = 0, o
            while j < len(src):
                if src[j] == '(' :
                    d += 1
                elif src[j] == ')':
                    d -= 1
                    if d == 0:
                        break
                j += 1
            inner = src[o + 1:j]
            # top-level alternatives
            alts, d2, cur, k, in_s = [], 0, 0, 0, False
            while k < len(inner):
                c = inner[k]
                if in_s:
                    if c == '\\':
                        k += 1
                    elif c == '"':
                        in_s = False
                elif c == '"':
                    in_s = True
                elif c in '([{':
                    d2 += 1
                elif c in ')]}':
                    d2 -= 1
                elif c == ',' and d2 == 0:
                    alts.append(inner[cur:k].strip())
                    cur = k + 1
                k += 1
            if inner[cur:].strip():
                alts.append(inner[cur:].strip())
            lits = []
            for a in alts:
                lm = re.fullmatch(r'tag\(\s*"((?:[^"\\]|\\.)*)"\s*\)', a)
                if lm:
                    try:
                        lits.append(bytes(lm.group(1), 'utf-8').decode('unicode_escape'))
                    except Exception:
                        lits.append(None)
                else:
                    lits.append(None)
            checked += 1
            for i2 in range(len(lits)):
                for i1 in range(i2):
                    if lits[i1] is not None and lits[i2] is not None and lits[i1] != lits[i2] and lits[i2].startswith(lits[i1]):
                        pp = 'compiler_directives' in f.file or 'comments' in f.file
                        failures.append(fail(f.name, 'peg.shadowed-alternative.%s' % f.name,
                                             'in an ordered choice tag(%r) stands before tag(%r): the longer literal can never be taken' % (lits[i1], lits[i2]),
                                             ['C11', 'C05', 'C06'] if pp else ['C02'], f))
    return dict(failures=failures, checked=checked)


def effects_run(fns, table, comb):
    failures = []
    undecided_e = []
    checked = 0
    by_name = {f.name: f for f in fns}
    # ---- inventory of statics
    tls = {}
    for rel, raw in crate_text('sv-parser-parser'):
        src = front.blank_strings(raw)
        for m in re.finditer(r'thread_local!\s*\(\s*static\s+(\w+)', src):
            tls[m.group(1)] = Dummy(rel, raw.count('\n', 0, m.start()) + 1)
        src_nc = re.sub(r'//[^\n]*', lambda m: ' ' * len(m.group(0)), src)
        for verdict, name, ty, m, detail in classify_statics(src_nc):
            # a static outside thread_local!: state only if it can change or is filled with data of a call
            if verdict in ('mut', 'once-dep'):
                failures.append(fail('-', 'C07.static.%s' % name, 'a static outside thread_local! that holds state: %s (%s)' % (ty[:40], detail), ['C07', 'C19'], Dummy(rel, raw.count('\n', 0, m.start()) + 1)))
            elif verdict in ('once-unknown', 'opaque'):
                undecided_e.append('%s: static %s: %s - whether it holds state is not decided' % (rel, name, ty[:40]))
        for m in re.finditer(r'lazy_static!', src_nc):
            seg = src_nc[m.end():m.end() + 600]
            if re.search(MUT_TYPES, seg):
                failures.append(fail('-', 'C07.hidden-static', 'lazy_static! holding mutable state', ['C07', 'C19'], Dummy(rel, raw.count('\n', 0, m.start()) + 1)))
            else:
                undecided_e.append('%s: lazy_static!: lazily initialised global' % rel)
    checked += 1
    if set(tls) != EXPECTED_TLS:
        for n in set(tls) - EXPECTED_TLS:
            failures.append(fail('-', 'C07.thread-local.%s-not-reset' % n, 'a thread-local that init() does not know', ['C07', 'C17'], tls[n]))
        for n in EXPECTED_TLS - set(tls):
            undecided_e.append('expected thread-local %s not found (anchor lost)' % n)
    storage = None
    for rel, raw in crate_text('sv-parser-parser'):
        m = re.search(r'nom_packrat::storage!\s*\(([^)]*)\)', raw)
        if m:
            storage = (rel, raw.count('\n', 0, m.start()) + 1, [x.strip() for x in m.group(1).split(',')])
    sc = stateless_check()
    checked += sc['checked']
    failures += sc['failures']
    # ---- direct effects of the accessor functions (their bodies name the thread-local)
    direct = {}
    for f in fns:
        eff = set()
        src = front.blank_strings(f.body_src)
        for tl in tls:
            for m in re.finditer(r'\b%s\.with\s*\(' % tl, src):
                seg = src[m.end():m.end() + 300]
                if re.search(r'borrow_mut\(\)\s*\.\s*(push|pop|clear|insert|remove|truncate)', seg) or 'borrow_mut' in seg:
                    eff.add(('W', tl))
                if re.search(r'\.borrow\(\)', seg):
                    eff.add(('R', tl))
        direct[f.name] = eff
    # ---- transitive closure over the call graph (least fixpoint), then modular re-check
    calls = {f.name: (called_names(f.ast) & set(by_name)) - {f.name} if f.ast else set() for f in fns}
    E = {n: set(direct[n]) for n in by_name}
    changed = True
    while changed:
        changed = False
        for n in by_name:
            new = set(direct[n])
            for c in calls[n]:
                new |= E[c]
            if new != E[n]:
                E[n] = new
                changed = True
    for n in by_name:
        checked += 1
        want = set(direct[n])
        for c in calls[n]:
            want |= E[c]
        if want != E[n]:
            failures.append(fail(n, 'effects.summary-inconsistent.%s' % n, 'effect summary is not a fixpoint', ['C07', 'C17'], by_name[n]))
    # ---- C17: the memo key (name, text position, in_directive) must determine every memoised result
    n_packrat = 0
    readers = {}
    for f in fns:
        if f.packrat:
            n_packrat += 1
            for kind, tl in E[f.name]:
                if tl == 'IN_DIRECTIVE':
                    continue           # represented in the key through HasExtraState<bool> (checked below)
                if f not in readers.setdefault(tl, []):
                    readers[tl].append(f)
    for tl, fl in sorted(readers.items()):
        failures.append(dict(fn='*', kind='%d memoised parsers depend on thread-local %s which is not part of the memo key (first: %s)' % (len(fl), tl, fl[0].name),
                             label='C17.key.%s' % tl, props=['C17'], repo='%s:%d' % (fl[0].file, fl[0].line), spec='gvc', snippet='', notes=[]))
    da = direct_access_check(fns)
    checked += da['checked']
    failures += da['failures']
    # key definition: the extra state of the memo key must contain in_directive() (the frame of the memoised parsers
    # above minus CURRENT_VERSION, K7); a key of another shape that still consults in_directive() is fine, an impl that
    # cannot be found is a lost anchor
    key_state = None
    for rel, raw in crate_text('sv-parser-parser'):
        m = re.search(r'impl\s+HasExtraState<[^{]*>\s+for\s+SpanInfo\s*\{\s*fn\s+get_extra_state\(&self\)\s*->[^{]*\{(.*?)\}\s*\}', raw, re.S)
        if m:
            key_state = 'ok' if re.search(r'\bin_directive\(\)', m.group(1)) else 'bad'
    checked += 2
    if key_state == 'bad':
        failures.append(fail('-', 'C17.key.in_directive-not-in-key', 'HasExtraState::get_extra_state no longer consults in_directive()', ['C17'], None))
    elif key_state is None:
        undecided_e.append('impl HasExtraState<..> for SpanInfo not found (anchor lost)')
    if storage is None or storage[2][:1] != ['AnyNode']:
        undecided_e.append('nom_packrat::storage!(AnyNode, ..) not found (anchor lost)')
    # ---- C07: init() resets everything and every entry calls it first: gvc.entries (entries_check), merged below
    lib_raw = open(os.path.join(REPO, 'sv-parser-parser/src/lib.rs')).read()
    # each reset touches ITS thread-local (unit kwstack proves that what it touches is emptied; it reads the closure, not the name of
    # the thread-local in front of `.with`)
    for fnname, tl in (('clear_version', 'CURRENT_VERSION'), ('clear_directive', 'IN_DIRECTIVE')):
        if by_name.get(fnname) is not None and fnname in direct:
            checked += 1
            w = set(x for k_, x in direct[fnname] if k_ == 'W')
            if w and tl not in w:
                failures.append(fail(fnname, 'C07.%s-resets-%s' % (fnname, tl), '%s() writes %s and not %s: init() no longer resets %s' % (fnname, sorted(w), tl, tl), ['C07', 'C13', 'C15', 'C17', 'C20'], by_name[fnname]))
            elif not w:
                undecided_e.append('%s: no write to a thread-local found (form not recognised)' % fnname)
    # that clear_directive / clear_version empty their stacks is decided by unit kwstack (Verus); here only their presence
    for fnname in ('clear_directive', 'clear_version'):
        checked += 1
        if by_name.get(fnname) is None:
            undecided_e.append('%s not found (anchor lost)' % fnname)
    ec = entries_check(lib_raw)
    checked += ec['checked']
    failures += ec['failures']
    undecided_e += ec.get('undecided', [])
    n_rec = sum(1 for f in fns if f.recursive)
    checked += 1
    # capacity of nom-recursive's per-thread name table (never reset; an index beyond it is a panic that depends on which
    # productions earlier calls on the thread happened to use): 64 bits per flag word, 1 / 2 / 4 words by cargo feature
    cap = None
    try:
        toml = open(os.path.join(REPO, 'sv-parser-parser', 'Cargo.toml'), encoding='utf-8').read()
        m_ = re.search(r'^nom-recursive\s*=\s*(.*)$', toml, re.M)
        spec_ = m_.group(1) if m_ else None
        if spec_ is None:
            m_ = re.search(r'^\[dependencies\.nom-recursive\]\s*\n((?:(?!\[)[^\n]*\n?)*)', toml, re.M)      # table form
            spec_ = m_.group(1) if m_ else None
        if spec_ is not None:
            cap = 256 if 'tracer256' in spec_ else 128 if 'tracer128' in spec_ else 64
    except IOError:
        pass
    if cap is None:
        undecided_e.append('the nom-recursive dependency line of sv-parser-parser/Cargo.toml could not be read (capacity of the recursion-flag table unknown)')
    elif n_rec > cap:
        failures.append(fail('-', 'C07.recursive-parser-index-overflow', '%d #[recursive_parser] functions exceed the %d bits of RecursiveInfo selected in Cargo.toml' % (n_rec, cap), ['C07', 'C08', 'C15'], None))
    return dict(failures=failures, checked=checked, tls=sorted(tls), n_packrat=n_packrat, n_recursive=n_rec, E=E, undecided=undecided_e)


NET = {'version_specifier': ('CURRENT_VERSION', +1), 'endkeywords_directive': ('CURRENT_VERSION', -1)}
BEGIN = {'begin_directive': ('IN_DIRECTIVE', +1), 'end_directive': ('IN_DIRECTIVE', -1), 'begin_keywords': ('CURRENT_VERSION', +1), 'end_keywords': ('CURRENT_VERSION', -1)}


def nested_net(e):
    """net begin/end effect of an expression; None if two alternatives of an alt((..)) disagree"""
    zero = {'IN_DIRECTIVE': 0, 'CURRENT_VERSION': 0}
    if not isinstance(e, (tuple, list)):
        return dict(zero)
    if isinstance(e, tuple) and e and e[0] == 'call' and e[1][0] == 'var' and e[1][1] in BEGIN:
        d = dict(zero)
        d[BEGIN[e[1][1]][0]] += BEGIN[e[1][1]][1]
        return d
    if isinstance(e, tuple) and e and e[0] == 'call' and e[1] == ('var', 'alt') and e[2] and e[2][0][0] == 'tuple':
        nets = [nested_net(b) for b in e[2][0][1]]
        if any(n is None for n in nets) or any(n != nets[0] for n in nets):
            return None
        return nets[0]
    total = dict(zero)
    for x in (e[1:] if isinstance(e, tuple) else e):
        n = nested_net(x)
        if n is None:
            return None
        for k in total:
            total[k] += n[k]
    return total


def paired_props(depth, exp):
    """whom an unbalanced stack concerns: the keyword-version stack decides which words are reserved (C13); the directive
    stack decides how white space is lexed, hence what the pp grammar and the conditional directives see (C04, C06);
    either one left unbalanced is state that outlives the production (C07)"""
    props = ['C07']
    if depth.get('CURRENT_VERSION') != exp.get('CURRENT_VERSION'):
        props.append('C13')
    if depth.get('IN_DIRECTIVE') != exp.get('IN_DIRECTIVE'):
        props += ['C04', 'C06', 'C12']
    if len(props) == 1:
        props += ['C13', 'C04', 'C06', 'C12']      # unbalanced only on an exit through `?`: which stack is in the message
    return props


def paired_run(fns):
    """on every path through a body (each `?` is an exit) pushes and pops of the same stack balance"""
    failures = []
    checked = 0
    for f in fns:
        if not f.ast or f.name in BEGIN or f.name.startswith('clear_'):
            continue
        names = called_names(f.ast)
        if not (names & set(BEGIN)):
            continue
        checked += 1
        depth = {'IN_DIRECTIVE': 0, 'CURRENT_VERSION': 0}

        def visit(stmts, depth):
            for st in stmts:
                e = st[2] if st[0] == 'let' else st[1]
                # exits while a region is open
                has_try = any(n[0] in ('try', 'return') for n in walk(e))
                direct_begin = e[0] == 'call' and e[1][0] == 'var' and e[1][1] in BEGIN
                if has_try and any(v != 0 for v in depth.values()):
                    return 'exit through `?` while %s' % ', '.join('%s is %+d' % kv for kv in depth.items() if kv[1])
                if direct_begin:
                    tl, d = BEGIN[e[1][1]]
                    depth[tl] += d
                else:
                    # begin/end calls nested in the statement (closures of map(..) inside alt((..))): they run
                    # only when the statement succeeds; every alternative must have the same net effect
                    net = nested_net(e)
                    if net is None:
                        return 'alternatives with different begin/end effects'
                    for tl, d in net.items():
                        depth[tl] += d
            return None
        msg = visit(f.ast[1], depth)
        exp = {'IN_DIRECTIVE': 0, 'CURRENT_VERSION': 0}
        if f.name in NET:
            exp[NET[f.name][0]] = NET[f.name][1]
        if msg:
            failures.append(fail(f.name, 'paired.%s' % f.name, 'begin/end not paired: ' + msg, paired_props(depth, exp), f))
        elif depth != exp:
            failures.append(fail(f.name, 'paired.%s' % f.name, 'begin/end not balanced at the end: %s (expected %s)' % (depth, exp), paired_props(depth, exp), f))
    return dict(failures=failures, checked=checked)


# =====================================================================================
# lexers of the directive-free fragments (comments, string literal, escaped identifier): position-wise obligations
# =====================================================================================
def _step(e, b1, b2):
    """ONE parser at a position whose next byte is b1 (there is one) and the byte after it b2 (None = end of input, UNK = not known).
    -> (accepts, consumed): accepts True/False/None(not decided); consumed 1 | 2 | ('run', frozenset of bytes the run stops at) | None"""
    if e[0] != 'call' or e[1][0] not in ('var', 'path'):
        return None, None
    f, a = e[1][1], e[2]
    if f in ('map', 'recognize', 'complete', 'context', 'cut'):
        return _step(a[-1] if f == 'context' else a[0], b1, b2)
    if f == 'is_not':
        l = _lit(a[0])
        if l is None:
            return None, None
        return (b1 not in l), (('run', frozenset(l)) if b1 not in l else None)
    if f == 'none_of' or f == 'one_of':
        l = _lit(a[0])
        if l is None:
            return None, None
        ok = (b1 not in l) if f == 'none_of' else (b1 in l)
        return ok, (1 if ok else None)
    if f == 'take':
        if a and a[0][0] == 'lit' and re.match(r'1(usize)?$', a[0][1]):
            return True, 1
        return None, None
    if f == 'anychar':
        return True, 1
    if f == 'tag':
        l = _lit(a[0])
        if l is None or len(l) == 0 or len(l) > 2:
            return None, None
        if len(l) == 1:
            return (b1 == l[0]), (1 if b1 == l[0] else None)
        if b1 != l[0]:
            return False, None
        if b2 == UNK:
            return None, None
        return (b2 == l[1]), (2 if b2 == l[1] else None)
    if f == 'terminated' and len(a) == 2:
        ok, n = _step(a[0], b1, b2)
        if ok is not True:
            return ok, None
        if n != 1:
            return None, None
        la = _lookahead(a[1], None if b2 is None else b2) if b2 != UNK else None
        if la is None:
            return None, None
        return la, (1 if la else None)
    if f in ('pair', 'tuple'):
        parts = a[0][1] if (f == 'tuple' and a and a[0][0] == 'tuple') else a
        if len(parts) != 2:
            return None, None
        ok, n = _step(parts[0], b1, b2)
        if ok is not True:
            return ok, None
        if n != 1:
            return None, None
        if b2 is None:
            ok2, n2 = False, None          # every parser modelled here needs a character
        elif b2 == UNK:
            return None, None
        else:
            ok2, n2 = _step(parts[1], b2, UNK)
        if ok2 is not True:
            return ok2, None
        if n2 != 1:
            return None, None
        return True, 2
    if f == 'alt':
        parts = a[0][1] if a and a[0][0] == 'tuple' else a
        for p_ in parts:
            ok, n = _step(p_, b1, b2)
            if ok is None:
                return None, None
            if ok:
                return True, n
        return False, None
    return None, None


def _lexer_steps(f):
    """the parsers of `let (s, X) = P(s)?;` statements of a lexer body, in order"""
    out = []
    for st in f.ast[1]:
        if st[0] == 'let' and st[2][0] == 'try' and st[2][1][0] == 'call' and st[2][1][2] == [('var', 's')]:
            out.append(st[2][1][1])
    return out


def _is_call(e, name):
    return e[0] == 'call' and e[1] == ('var', name)


def lexers_check(fns, table):
    """C06 / C18: the lexers of the fragments that pass through unchanged accept exactly what the standard says and nothing shorter:
    a block comment runs to the FIRST `*/`, a one-line comment to the end of its line, a string literal to the first quote that is not
    escaped, an escaped identifier to the next white space.  Each body is `open  many0(alt((..)))  close`; the loop is memoryless, so
    a statement about every position follows from one about every pair (next byte, byte after it / end of input): generated here."""
    failures, undecided = [], []
    checked = 0
    decided = set()
    ALL = list(range(256))

    def classes():
        for b1 in ALL:
            for b2 in [None] + ALL:
                yield b1, b2

    def lit_is(e, s_):
        return _is_call(e, 'tag') and _lit(e[2][0]) == s_

    def report(f, what, props=('C06', 'C18')):
        failures.append(fail(f.name, 'lex.%s-%s' % (f.name, what[0]), what[1], list(props), f))

    # ---- block comment
    f = table.get('block_comment')
    if f is None or not f.ast:
        undecided.append('block_comment not found (anchor lost)')
    else:
        st = _lexer_steps(f)
        checked += 1
        if not (len(st) == 3 and lit_is(st[0], b'/*') and lit_is(st[2], b'*/') and st[1][0] == 'call' and st[1][1][0] == 'var' and st[1][1][1] in ('many0', 'many1')):
            undecided.append('block_comment: not of the form tag("/*") many0(..) tag("*/")')
        else:
            body = st[1][2][0]
            bad_stop = bad_go = bad_len = unk = None
            for b1, b2 in classes():
                ok, n = _step(body, b1, b2)
                if ok is None:
                    unk = (b1, b2)
                    break
                term = (b1 == ord('*') and b2 == ord('/'))
                if term and ok:
                    bad_stop = (b1, b2)
                if not term and not ok and not (b1 == ord('*') and b2 is None):      # `*` as last byte: unterminated either way
                    bad_go = bad_go or (b1, b2)
                if ok and not (n == 1 or (isinstance(n, tuple) and ord('*') in n[1])):
                    bad_len = bad_len or (b1, b2, n)
            if unk:
                undecided.append('block_comment: the body uses a construct outside the position-wise evaluator')
            else:
                decided.add('block_comment')
                if st[1][1][1] == 'many1':
                    report(f, ('accepts-the-empty-comment', 'the body must be allowed to be empty: `/**/` is a terminated comment (many1 rejects it)'))
                if bad_stop:
                    report(f, ('stops-at-the-first-terminator', 'the body consumes the `*` of a `*/`: the comment runs past its terminator'))
                if bad_go:
                    report(f, ('does-not-stop-before-the-terminator', 'the body stops at %r followed by %s although no `*/` starts there: a terminated comment is rejected' % (chr(bad_go[0]), 'end of input' if bad_go[1] is None else repr(chr(bad_go[1])))))
                if bad_len:
                    report(f, ('visits-every-position-a-terminator-can-start-at', 'at %r the body consumes %s: it can step over the `*` of a `*/`' % (chr(bad_len[0]), 'two bytes' if bad_len[2] == 2 else 'a run that does not stop at `*`')))
    # ---- one-line comment
    f = table.get('one_line_comment')
    if f is None or not f.ast:
        undecided.append('one_line_comment not found (anchor lost)')
    else:
        st = _lexer_steps(f)
        checked += 1
        if not (len(st) == 3 and lit_is(st[0], b'//') and _is_call(st[1], 'opt') and _is_call(st[2], 'opt')):
            undecided.append('one_line_comment: not of the form tag("//") opt(..) opt(..)')
        else:
            body, nl = st[1][2][0], st[2][2][0]
            if not (_is_call(body, 'is_not') and _lit(body[2][0]) is not None and _is_call(nl, 'tag') and _lit(nl[2][0]) is not None):
                undecided.append('one_line_comment: text or line end written in a form the evaluator does not follow')
            else:
                decided.add('one_line_comment')
                if set(_lit(body[2][0])) != {ord('\n')}:
                    report(f, ('runs-to-the-end-of-the-line', 'the comment text stops at %r instead of exactly at the newline' % bytes(sorted(set(_lit(body[2][0]))))), props=('C06', 'C18', 'C10'))      # C10: a comment may share the line of an `include only if it owns the rest of that line
                if _lit(nl[2][0]) != b'\n':
                    report(f, ('takes-its-newline', 'the comment ends with %r instead of the newline' % _lit(nl[2][0])), props=('C06', 'C18', 'C10'))
    # ---- string literal
    f = table.get('string_literal_impl')
    if f is None or not f.ast:
        undecided.append('string_literal_impl not found (anchor lost)')
    else:
        st = _lexer_steps(f)
        checked += 1
        if not (len(st) == 3 and lit_is(st[0], b'"') and lit_is(st[2], b'"') and st[1][0] == 'call' and st[1][1][0] == 'var' and st[1][1][1] in ('many0', 'many1')):
            undecided.append('string_literal_impl: not of the form tag("\"") many0(..) tag("\"")')
        else:
            body = st[1][2][0]
            bad_stop = bad_go = bad_len = unk = None
            for b1, b2 in classes():
                ok, n = _step(body, b1, b2)
                if ok is None:
                    unk = (b1, b2)
                    break
                if b1 == ord('"') and ok:
                    bad_stop = (b1, b2)
                if b1 != ord('"') and not ok and not (b1 == ord('\\') and b2 is None):
                    bad_go = bad_go or (b1, b2)
                if ok and b1 == ord('\\') and n != 2:
                    bad_len = bad_len or (b1, b2, n)
                if ok and b1 != ord('\\') and not (n == 1 or (isinstance(n, tuple) and ord('"') in n[1] and ord('\\') in n[1])):
                    bad_len = bad_len or (b1, b2, n)
            if unk:
                undecided.append('string_literal_impl: the body uses a construct outside the position-wise evaluator')
            else:
                decided.add('string_literal_impl')
                if st[1][1][1] == 'many1':
                    report(f, ('accepts-the-empty-string', 'the body must be allowed to be empty: `""` is a terminated string literal'))
                if bad_stop:
                    report(f, ('stops-at-the-first-unescaped-quote', 'the body consumes an unescaped quote: the literal runs past its end'))
                if bad_go:
                    report(f, ('does-not-stop-before-the-closing-quote', 'the body stops at %r followed by %s: a terminated string literal is rejected' % (chr(bad_go[0]), 'end of input' if bad_go[1] is None else repr(chr(bad_go[1])))))
                if bad_len:
                    report(f, ('a-backslash-escapes-exactly-the-next-character', 'at %r the body consumes %s' % (chr(bad_len[0]), {1: 'one byte', 2: 'two bytes'}.get(bad_len[2], 'a run that can step over a quote or a backslash'))))
    # ---- escaped identifier
    f = table.get('escaped_identifier_impl')
    if f is None or not f.ast:
        undecided.append('escaped_identifier_impl not found (anchor lost)')
    else:
        st = _lexer_steps(f)
        checked += 1
        if not (len(st) == 2 and lit_is(st[0], b'\\') and _is_call(st[1], 'is_not') and _lit(st[1][2][0]) is not None):
            undecided.append('escaped_identifier_impl: not of the form tag("\\") is_not(..)')
        else:
            decided.add('escaped_identifier_impl')
            if set(_lit(st[1][2][0])) != set(b' \t\r\n'):
                report(f, ('ends-at-white-space', 'the identifier stops at %r instead of at blank, tab, CR, LF' % bytes(sorted(set(_lit(st[1][2][0]))))), props=('C06', 'C04', 'C05', 'C11', 'C18', 'C16'))      # macro names may be escaped identifiers; get_str_trim relies on white space being a node of its own; a comment swallowed into the identifier survives strip_comments
    # ---- macro text: the body of a `define runs to the first line end that no backslash escapes
    f = table.get('macro_text')
    if f is None or not f.ast:
        undecided.append('macro_text not found (anchor lost)')
    else:
        st = _lexer_steps(f)
        checked += 1
        parts = None
        if len(st) == 1 and st[0][0] == 'call' and st[0][1][0] == 'var' and st[0][1][1] in ('many1', 'many0') and _is_call(st[0][2][0], 'alt'):
            a_ = st[0][2][0][2]
            parts = a_[0][1] if a_ and a_[0][0] == 'tuple' else a_
        lits = []
        if parts is not None:
            for p_ in parts:
                if _is_call(p_, 'tag') and _lit(p_[2][0]):
                    lits.append(('tag', _lit(p_[2][0])))
                elif _is_call(p_, 'is_not') and _lit(p_[2][0]):
                    lits.append(('is_not', _lit(p_[2][0])))
                else:
                    parts = None
                    break
        if parts is None:
            undecided.append('macro_text: not of the form many1(alt((tag(..), .., is_not(..))))')
        else:
            decided.add('macro_text')
            BS, CR, LF = 92, 13, 10
            other = [b for b in range(97, 123) if all(b not in l for _, l in lits)][:1] or [1]
            alpha = sorted(set([BS, CR, LF] + other + [b for _, l in lits for b in l]))
            bad = None
            for b1 in alpha:
                for b2 in [None] + alpha:
                    for b3 in ([None] if b2 is None else [None] + alpha):
                        nxt = [b for b in (b1, b2, b3) if b is not None]
                        got = None
                        for kind, l in lits:
                            if kind == 'tag':
                                if len(l) <= 3 and nxt[:len(l)] == list(l):
                                    got = len(l)
                                    break
                                if len(l) > 3 and nxt == list(l[:len(nxt)]) and len(nxt) == 3:
                                    got = 'unknown'
                                    break
                            elif b1 not in l:
                                got = ('run', frozenset(l))
                                break
                        if b1 in (CR, LF):
                            want = None
                        elif b1 == BS:
                            want = 2 if b2 == LF else 3 if (b2 == CR and b3 == LF) else 2 if b2 == CR else 1
                        else:
                            want = 'one-or-run'
                        ok = (got == want) if want != 'one-or-run' else (got == 1 or (isinstance(got, tuple) and {BS, CR, LF} <= set(got[1])))
                        if not ok and bad is None:
                            bad = (b1, b2, b3, got, want)
            if st[0][1][1] != 'many1':
                pass            # an empty body is `opt(macro_text)`'s business either way
            if bad:
                b1, b2, b3, got, want = bad
                report(f, ('runs-to-the-first-unescaped-line-end', 'at %r the body %s where the standard (22.5.1: a newline preceded by a backslash continues the text) wants %s' % (
                    bytes(b for b in (b1, b2, b3) if b is not None), 'stops' if got is None else 'consumes %s' % (got,), 'it to stop' if want is None else 'it to consume %s' % (want,))), props=('C05', 'C11'))
    # ---- angle-bracket file name of `include <f>: from `<` to the first `>`
    f = table.get('angle_bracket_literal_impl')
    if f is None or not f.ast:
        undecided.append('angle_bracket_literal_impl not found (anchor lost)')
    else:
        st = _lexer_steps(f)
        checked += 1
        if not (len(st) == 3 and _is_call(st[0], 'tag') and _is_call(st[1], 'is_not') and _is_call(st[2], 'tag') and all(_lit(x[2][0]) is not None for x in st)):
            undecided.append('angle_bracket_literal_impl: not of the form tag(..) is_not(..) tag(..)')
        else:
            decided.add('angle_bracket_literal_impl')
            got = (_lit(st[0][2][0]), bytes(sorted(set(_lit(st[1][2][0])))), _lit(st[2][2][0]))
            if got != (b'<', b'>', b'>'):
                report(f, ('runs-from-the-opening-to-the-first-closing-bracket', 'the file name of `include <f> is lexed as %r, a run stopping at %r, %r' % got), props=('C10', 'C09'))
    # ---- the token wrappers attach the white space that follows (the same-line rule of `include and the kept-directive arms rely on it)
    for wname, impl, props_ in (('angle_bracket_literal', 'angle_bracket_literal_impl', ('C10', 'C09')), ('string_literal', 'string_literal_impl', ('C10', 'C06')),
                                ('escaped_identifier', 'escaped_identifier_impl', ('C06',))):
        f = table.get(wname)
        if f is None or not f.ast:
            undecided.append('%s not found (anchor lost)' % wname)
            continue
        st = _lexer_steps(f)
        checked += 1
        if len(st) == 1 and st[0][0] == 'call' and st[0][1][0] == 'var' and st[0][1][1] in ('ws', 'no_ws') and st[0][2] == [('var', impl)]:
            decided.add(wname)
            if st[0][1][1] == 'no_ws':
                report(f, ('takes-the-white-space-that-follows', '%s is built with no_ws(%s): the white space after the token is no longer part of it' % (wname, impl)), props=props_)
        else:
            undecided.append('%s: not of the form ws(%s)' % (wname, impl))
    # ---- identifiers: [a-zA-Z_] then [a-zA-Z0-9_$]* (IEEE 5.6; C identifiers without `$`); the classes themselves: gvc.kwsites
    for iname, second, props_ in (('simple_identifier_impl', 'AZ09_DOLLAR', ('C13', 'C04', 'C05', 'C11')), ('c_identifier_impl', 'AZ09_', ('C13',))):
        f = table.get(iname)
        if f is None or not f.ast:
            undecided.append('%s not found (anchor lost)' % iname)
            continue
        st = _lexer_steps(f)
        checked += 1
        def cls(e):
            return e[2][0][1] if (_is_call(e, 'is_a') and len(e[2]) == 1 and e[2][0][0] in ('var', 'path')) else None
        if len(st) == 2 and cls(st[0]) and _is_call(st[1], 'opt') and cls(st[1][2][0]):
            decided.add(iname)
            if (cls(st[0]), cls(st[1][2][0])) != ('AZ_', second):
                report(f, ('starts-with-a-letter-or-underscore-and-continues-with-the-full-class', 'the identifier is lexed as %s then %s instead of AZ_ then %s' % (cls(st[0]), cls(st[1][2][0]), second)), props=props_)
        else:
            undecided.append('%s: not of the form is_a(CLASS) opt(is_a(CLASS))' % iname)
    # ---- the `_exact` variants take NO white space after the token (the name of a `define: what follows it is the macro text)
    for n_, f in sorted(table.items()):
        if not n_.endswith('_exact') or not f.ast:
            continue
        checked += 1
        names = called_names(f.ast)
        wrong = sorted(c for c in names if not c.endswith('_exact') and (c + '_exact') in table)
        impls_ = sorted(c for c in names if c.endswith('_impl'))
        own_impl = n_[:-len('_exact')] + '_impl'
        if impls_ and own_impl in table and own_impl not in impls_:
            report(f, ('is-built-on-its-own-lexer', '%s is built on %s instead of %s: another character class / keyword check' % (n_, ', '.join(impls_), own_impl)), props=('C11', 'C05', 'C04', 'C13'))
            continue
        if 'ws' in names or wrong:
            report(f, ('takes-no-white-space-after-the-token', '%s is built from %s: the white space (inside a directive: the line end too) after the token becomes part of it' % (
                n_, ', '.join((['ws(..)'] if 'ws' in names else []) + wrong))), props=('C11', 'C05'))
        else:
            decided.add(n_)
    # ---- the groups of lines of a conditional: any number of items (none is legal, 22.6), up to the next `elsif / `else / `endif
    for gname, stops in (('ifdef_group_of_lines', {b'`elsif', b'`else', b'`endif'}), ('ifndef_group_of_lines', {b'`elsif', b'`else', b'`endif'}),
                         ('elsif_group_of_lines', {b'`elsif', b'`else', b'`endif'}), ('else_group_of_lines', {b'`endif'})):
        f = table.get(gname)
        if f is None or not f.ast:
            undecided.append('%s not found (anchor lost)' % gname)
            continue
        st = _lexer_steps(f)
        checked += 1
        ok_shape = (len(st) == 1 and st[0][0] == 'call' and st[0][1][0] == 'var' and st[0][1][1] in ('many0', 'many1') and _is_call(st[0][2][0], 'preceded')
                    and len(st[0][2][0][2]) == 2 and st[0][2][0][2][1] == ('var', 'source_description') and _is_call(st[0][2][0][2][0], 'peek') and _is_call(st[0][2][0][2][0][2][0], 'not'))
        got = None
        if ok_shape:
            inner = st[0][2][0][2][0][2][0][2][0]
            if _is_call(inner, 'tag') and _lit(inner[2][0]) is not None:
                got = {_lit(inner[2][0])}
            elif _is_call(inner, 'alt'):
                parts = inner[2][0][1] if inner[2] and inner[2][0][0] == 'tuple' else inner[2]
                if all(_is_call(x, 'tag') and _lit(x[2][0]) is not None for x in parts):
                    got = set(_lit(x[2][0]) for x in parts)
        if got is None:
            undecided.append('%s: not of the form many0(preceded(peek(not(<tags>)), source_description))' % gname)
            continue
        decided.add(gname)
        if st[0][1][1] == 'many1':
            report(f, ('may-be-empty', 'the group is lexed with many1: a conditional branch without any item is legal (22.6) and is now rejected'), props=('C04', 'C11'))
        if got != stops:
            report(f, ('ends-at-the-next-branch-keyword', 'the group stops in front of %s instead of %s' % (sorted(got), sorted(stops))), props=('C04', 'C11'))
    # ---- comment = one_line_comment | block_comment
    f = table.get('comment')
    if f is not None and f.ast:
        checked += 1
        names = called_names(f.ast)
        if {'one_line_comment', 'block_comment'} <= names:
            decided.add('comment')
        else:
            undecided.append('comment: does not try one_line_comment and block_comment')
    return dict(failures=failures, undecided=undecided, checked=checked, decided=decided)


# =====================================================================================
# the Error enum: what the properties say about errors rests on how thiserror is told to derive source() / Display
# =====================================================================================
def errors_check():
    """C09: `ExceedRecursiveLimit (for includes wrapped once per include level)`, C10: `Include{File{path}}`.  The wrapping is observable
    through the variant structure AND through std::error::Error::source(): an `Include` / `File` variant keeps its inner error as
    #[source] / #[from] and has a message of its own (not #[error(transparent)], which would forward source() past it)."""
    failures, undecided = [], []
    checked = 0
    rel = 'sv-parser-error/src/lib.rs'
    try:
        raw = open(os.path.join(REPO, rel), encoding='utf-8').read()
    except IOError:
        return dict(failures=[], undecided=['sv-parser-error/src/lib.rs not found (anchor lost)'], checked=0)
    m = re.search(r'pub\s+enum\s+Error\s*\{(.*?)\n\}', raw, re.S)
    if not m:
        return dict(failures=[], undecided=['enum Error not found (anchor lost)'], checked=0)
    body = m.group(1)
    variants = {}
    for vm in re.finditer(r'((?:\s*#\[[^\]]*\]\s*)+)(\w+)\s*(\{[^}]*\}|\([^)]*\))?\s*,', body):
        variants[vm.group(2)] = (vm.group(1), vm.group(3) or '', vm.start())
    for name, props in (('Include', ['C09', 'C10', 'C08']), ('File', ['C10', 'C08'])):
        checked += 1
        if name not in variants:
            undecided.append('Error::%s not found in enum Error (anchor lost)' % name)
            continue
        attrs, fields, pos = variants[name]
        at = Dummy(rel, raw[:m.start(1) + pos].count('\n') + 2)
        if re.search(r'#\[error\(\s*transparent\s*\)\]', attrs):
            failures.append(fail('Error', 'C09.error.%s-is-a-level-of-its-own-in-the-source-chain' % name, 'Error::%s is #[error(transparent)]: Display and source() are forwarded to the inner error, the wrapping level disappears from the chain' % name, props, at))
        elif not re.search(r'#\[(?:source|from)\]\s*(?:pub\s+)?\w+\s*:|\bsource\s*:', fields):
            failures.append(fail('Error', 'C09.error.%s-keeps-its-cause-as-source' % name, 'Error::%s no longer marks its inner error as #[source] / #[from]' % name, props, at))
    checked += 1
    for name in ('ExceedRecursiveLimit', 'IncludeLine', 'Parse', 'Preprocess', 'ReadUtf8', 'DefineNotFound', 'DefineNoArgs', 'DefineArgNotFound'):
        if not re.search(r'\b%s\b\s*[({,]' % name, body):
            undecided.append('Error::%s not found in enum Error (anchor lost)' % name)
    return dict(failures=failures, undecided=undecided, checked=checked)


# =====================================================================================
# assumed lexers: productions of the pp grammar whose BEHAVIOUR is an assumed contract of a preprocessor property
# =====================================================================================
_PP_COMMON = ['ws', 'symbol', 'keyword', 'paren', 'white_space', 'compiler_directive', 'compiler_directive_without_resetall', 'source_description',
              'source_description_not_directive', 'comment', 'one_line_comment', 'block_comment', 'string_literal', 'string_literal_impl',
              'escaped_identifier', 'escaped_identifier_impl']
_PP_MACRO = ['text_macro_definition', 'text_macro_name', 'list_of_formal_arguments', 'formal_argument', 'text_macro_identifier', 'text_macro_identifier_exact', 'identifier_exact',
             'macro_text', 'default_text', 'identifier', 'simple_identifier', 'simple_identifier_exact', 'simple_identifier_impl', 'escaped_identifier_exact',
             'define_argument', 'define_argument_inner', 'define_argument_str', 'define_argument_paren', 'define_argument_bracket', 'define_argument_brace']
_PP_USAGE = ['text_macro_usage', 'list_of_actual_arguments', 'actual_argument', 'define_argument', 'define_argument_inner', 'define_argument_str',
             'define_argument_paren', 'define_argument_bracket', 'define_argument_brace']
_PP_COND = ['conditional_compiler_directive', 'ifdef_directive', 'ifndef_directive', 'ifdef_group_of_lines', 'ifndef_group_of_lines', 'elsif_group_of_lines',
            'else_group_of_lines', 'text_macro_identifier', 'text_macro_identifier_exact', 'identifier', 'simple_identifier', 'simple_identifier_impl']
_PP_INC = ['include_compiler_directive', 'include_compiler_directive_double_quote', 'include_compiler_directive_angle_bracket',
           'include_compiler_directive_text_macro_usage', 'angle_bracket_literal', 'angle_bracket_literal_impl']
_PP_KEPT = ['resetall_compiler_directive', 'timescale_compiler_directive', 'default_nettype_compiler_directive', 'default_nettype_value',
            'unconnected_drive_compiler_directive', 'nounconnected_drive_compiler_directive', 'celldefine_compiler_directive', 'endcelldefine_compiler_directive',
            'pragma', 'line_compiler_directive', 'position_compiler_directive', 'keywords_directive', 'version_specifier', 'endkeywords_directive']
ASSUMED_LEXERS = {
    'C04': _PP_COMMON + _PP_COND + ['undefine_compiler_directive', 'undefineall_compiler_directive'],
    'C05': _PP_COMMON + _PP_MACRO + _PP_USAGE,
    'C06': _PP_COMMON + _PP_KEPT,
    'C10': _PP_COMMON + _PP_INC + _PP_USAGE[:1],
    'C15': ['ws', 'symbol', 'keyword', 'white_space'],      # 'an unparsable tail leaves the tree unchanged' needs the look-ahead of every token to be independent of what follows the token's own boundary
    'C17': ['ws', 'no_ws', 'symbol', 'symbol_exact', 'keyword', 'white_space'],      # the token combinators decide how often the white space (and a directive inside it) after a token is lexed: with the version stack outside the memo key (K7) that is observable
    'C09': _PP_COMMON + _PP_INC + _PP_USAGE + _PP_MACRO,        # 'chains of legal depth yield the fully expanded text'
    'C11': _PP_COMMON + _PP_MACRO + ['undefine_compiler_directive', 'undefineall_compiler_directive'],
    'C18': _PP_COMMON + _PP_KEPT[:0] + ['macro_text', 'text_macro_definition'],
}


def lexer_fingerprint(f):
    import hashlib
    src = re.sub(r'//[^\n]*', '', f.body_src)
    src = re.sub(r'\s+', '', src)
    return hashlib.sha1(src.encode('utf-8')).hexdigest()[:16]


def assumed_check(fns, prop, decided=()):
    """The preprocessor arms are verified against grammar invariants of the pp tree (which nodes exist, what their leaves cover).  WHAT
    TEXT each pp production accepts - where a macro body ends, what separates formal arguments, what counts as a comment - is behaviour
    of nom closures no contract here reaches: it is an ASSUMED contract, backed only by the suite, the bounded stand-ins and the golden
    files, all of which speak about the pinned text.  A production on this list whose text is no longer the pinned one therefore leaves
    the property UNDECIDED (exit 2) unless another obligation refutes it - never an alarm, never a pass."""
    names = []
    for n in ASSUMED_LEXERS.get(prop, []):
        if n not in names:
            names.append(n)
    base_p = os.path.join(VERIF, 'gvc', 'baseline.json')
    base = json.load(open(base_p)).get('assumed_lexers', {}) if os.path.exists(base_p) else {}
    by = {}
    for f in fns:
        by.setdefault(f.name, []).append(f)
    undecided = []
    checked = 0
    for n in names:
        if n in decided:
            continue            # its accepted language is DECIDED on this tree by gvc.lexers: no assumption left to back
        checked += 1
        cur = sorted(lexer_fingerprint(f) for f in by.get(n, []))
        if n not in base:
            undecided.append('assumed production %s has no committed fingerprint' % n)
        elif not cur:
            undecided.append('%s: the production %s, whose behaviour is an assumed contract of %s, is not there any more' % ('sv-parser-parser', n, prop))
        elif cur != sorted(base[n]):
            f = by[n][0]
            undecided.append('%s:%d: the production %s, whose accepted language is an assumed contract of %s (no contract reaches nom closures; backed for the pinned text only), has changed' % (f.file, f.line, n, prop))
    # a fingerprint comparison backs an ASSUMPTION; it is not an obligation and is not counted as one
    if prop == 'C17':
        # C17's frame condition is VIOLATED on the pinned tree (K7: the keyword-version stack is not part of the memo key).  Which inputs
        # expose it depends on which alternatives traverse a white space holding `begin_keywords / `end_keywords a second time after
        # an earlier alternative failed behind it - i.e. on the order of alternatives anywhere in the grammar.  The listed findings
        # speak about the pinned grammar; for another grammar whether further inputs fail is not decided by the frame argument.
        import hashlib
        h = hashlib.sha1()
        for n in sorted(by):
            for f in sorted(by[n], key=lambda f_: (f_.file, f_.line)):
                if getattr(f, 'is_parser', False) or getattr(f, 'is_combinator', False):
                    h.update(n.encode())
                    h.update(lexer_fingerprint(f).encode())
        cur_all = h.hexdigest()[:16]
        if base.get('__all_productions__') is None:
            undecided.append('no committed fingerprint of the whole grammar (C17)')
        elif [cur_all] != base.get('__all_productions__'):
            undecided.append('sv-parser-parser: the grammar is no longer the pinned one while the frame condition of C17 is violated on the pinned tree (K7: the keyword-version stack is outside the memo key); which inputs expose that depends on the order in which alternatives traverse white space holding a directive - whether inputs beyond the listed findings fail is not decided')
    return dict(failures=[], undecided=undecided, checked=0, names=names, compared=checked)


# =====================================================================================
# identifier rules (C13)
# =====================================================================================
KW_TABLES = {'Ieee1364_1995': 'KEYWORDS_1364_1995', 'Ieee1364_2001': 'KEYWORDS_1364_2001', 'Ieee1364_2001Noconfig': 'KEYWORDS_1364_2001_NOCONFIG',
             'Ieee1364_2005': 'KEYWORDS_1364_2005', 'Ieee1800_2005': 'KEYWORDS_1800_2005', 'Ieee1800_2009': 'KEYWORDS_1800_2009',
             'Ieee1800_2012': 'KEYWORDS_1800_2012', 'Ieee1800_2017': 'KEYWORDS_1800_2017', 'Directive': 'KEYWORDS_DIRECTIVE'}
SPECIFIERS = {'1364-1995': 'Ieee1364_1995', '1364-2001': 'Ieee1364_2001', '1364-2001-noconfig': 'Ieee1364_2001Noconfig', '1364-2005': 'Ieee1364_2005',
              '1800-2005': 'Ieee1800_2005', '1800-2009': 'Ieee1800_2009', '1800-2012': 'Ieee1800_2012', '1800-2017': 'Ieee1800_2017', 'directive': 'Directive'}


def kwsites_check(fns):
    """every region is opened under a name begin_keywords knows (an unknown name pushes NOTHING: the lexing that follows runs
    under whatever set was in force and the end_keywords() that follows pops somebody else's entry); macro names are lexed
    under the directive-name set"""
    failures = []
    undecided = []
    checked = 0
    by_name = {f.name: f for f in fns}
    bk = by_name.get('begin_keywords')
    if bk is None:
        return dict(failures=[], undecided=['begin_keywords not found (anchor lost)'], checked=0)
    known = set(re.findall(r'"([^"]*)"\s*=>', bk.body_src))
    if not known:
        # the names may sit in a const table the body looks the argument up in: ("name", Version::X) pairs
        try:
            raw_u = open(os.path.join(REPO, bk.file), encoding='utf-8').read()
        except IOError:
            raw_u = ''
        for cm in re.finditer(r'\b(?:const|static)\s+([A-Z_][A-Z0-9_]*)\s*:[^=]*=\s*&?\[(.*?)\];', raw_u, re.S):
            if re.search(r'\b%s\b' % cm.group(1), bk.body_src):
                known |= set(re.findall(r'\(\s*"([^"]*)"\s*,\s*Version::\w+\s*\)', cm.group(2)))
    if not known:
        return dict(failures=[], undecided=['begin_keywords: the names it accepts could not be read off its match arms'], checked=0)
    for f in fns:
        if not f.ast or f.name == 'begin_keywords':
            continue
        for n in walk(f.ast):
            if n[0] == 'call' and n[1] == ('var', 'begin_keywords'):
                checked += 1
                a = n[2][0] if len(n[2]) == 1 else None
                if a is None or a[0] != 'lit' or not (a[1].startswith('"') and a[1].endswith('"')):
                    undecided.append('%s: begin_keywords is called with something other than one string literal' % f.name)
                    continue
                lit = a[1][1:-1]
                props = ['C13', 'C17', 'C07'] + (['C05'] if f.name == 'text_macro_usage' else []) + (['C11'] if f.name == 'text_macro_definition' else [])      # C17/C07: the end_keywords() that follows pops an entry this production did not push
                if lit not in known:
                    failures.append(fail(f.name, 'C13.kw.%s-opens-a-region-under-a-known-name' % f.name,
                                         'begin_keywords("%s"): no such keyword set, the call pushes nothing' % lit, props, f))
                elif f.name.startswith('text_macro_') and lit != 'directive':
                    failures.append(fail(f.name, 'C13.kw.%s-lexes-the-macro-name-under-the-directive-set' % f.name,
                                         'the macro name is lexed under the keyword set "%s"' % lit, props, f))
    # the character classes every identifier lexer and the word-boundary test of keyword(t) are built from
    # (IEEE 1800-2017 5.6: simple_identifier ::= [a-zA-Z_] { [a-zA-Z0-9_$] })
    import string
    want = {'AZ_': set(string.ascii_letters + '_'), 'AZ09_': set(string.ascii_letters + string.digits + '_'),
            'AZ09_DOLLAR': set(string.ascii_letters + string.digits + '_$')}
    try:
        raw_id = open(os.path.join(REPO, 'sv-parser-parser/src/general/identifiers.rs'), encoding='utf-8').read()
    except IOError:
        raw_id = ''
    for cname, chars in sorted(want.items()):
        checked += 1
        m_ = re.search(r'const\s+%s\s*:\s*&str\s*=\s*"([^"]*)"\s*;' % cname, raw_id)
        if m_ is None:
            undecided.append('character class %s not found in general/identifiers.rs (anchor lost)' % cname)
        elif set(m_.group(1)) != chars:
            diff = sorted(chars ^ set(m_.group(1)))
            failures.append(fail('identifiers', 'C13.kw.character-class-%s' % cname, 'the character class %s differs from IEEE 5.6 in %s' % (cname, diff[:6]),
                                 ['C13', 'C05', 'C11', 'C04'], Dummy('sv-parser-parser/src/general/identifiers.rs', raw_id[:m_.start()].count('\n') + 1)))
    return dict(failures=failures, undecided=undecided, checked=checked)


def ident_run(fns, table, comb, faithful_notes):
    failures = []
    undecided = []
    checked = 0
    by_name = {f.name: f for f in fns}
    # (1) every construction site of SimpleIdentifier / CIdentifier takes its Locate from a lexer that refuses keywords
    for f in fns:
        if not f.ast:
            continue
        for n in walk(f.ast):
            if n[0] == 'struct' and n[1] in ('SimpleIdentifier', 'CIdentifier'):
                checked += 1
                impls = [c for c in called_names(f.ast) if c.endswith('_impl')]
                ok = impls and all(('keyword-check' in [k for k, _ in faithful_notes.get(i, [])]) for i in impls)
                unknown = [i for i in impls if 'unsupported' in [k for k, _ in faithful_notes.get(i, [])]]
                if not ok and unknown:
                    undecided.append('%s: the lexer %s is written in a form the evaluation does not follow (%s): whether it refuses reserved words is not decided' % (
                        f.name, ', '.join(unknown), '; '.join(str(v)[:80] for i in unknown for k, v in faithful_notes.get(i, []) if k == 'unsupported')))
                elif not ok:
                    failures.append(fail(f.name, 'C13.ident.%s-without-keyword-check' % f.name,
                                         '%s is built from %s which does not refuse is_keyword(..)' % (n[1], impls or 'no *_impl lexer'), ['C13'], f))
    # (1b) the identifier lexers of `pragma (identifier_pragma, simple_identifier_pragma*: no reserved-word check, 22.11 lets a pragma name
    #      any word) are reachable from the pragma productions only
    for f in fns:
        if not f.ast or f.name.startswith('pragma') or f.name in ('identifier_pragma', 'simple_identifier_pragma', 'simple_identifier_pragma_impl'):
            continue
        bad_ = sorted(c for c in called_names(f.ast) if c in ('identifier_pragma', 'simple_identifier_pragma', 'simple_identifier_pragma_impl'))
        if bad_:
            checked += 1
            failures.append(fail(f.name, 'C13.ident.%s-uses-the-lexer-without-keyword-check' % f.name,
                                 '%s takes its identifier from %s, which accepts reserved words (meant for `pragma only)' % (f.name, ', '.join(bad_)), ['C13'], f))
    # (2),(3) is_keyword / begin_keywords / end_keywords: decided semantically by unit kwstack (Verus); here only their presence
    for nm in ('is_keyword', 'begin_keywords', 'end_keywords'):
        checked += 1
        if by_name.get(nm) is None:
            undecided.append('%s not found (anchor lost)' % nm)
    # (4) version_specifier passes the literal it matched: in the alternative that lexes keyword("S") the argument of
    #     begin_keywords must be "S"; an alternative written in a form not recognised here is a reason for indecision
    vs = by_name.get('version_specifier')
    if vs is None:
        undecided.append('version_specifier not found (anchor lost)')
    else:
        raw = re.sub(r'\s+', '', vs.body_src)
        for spec in list(SPECIFIERS)[:8]:
            checked += 1
            m_ = re.search(r'keyword\("%s"\),\|(\w+)\|\{begin_keywords\("([^"]*)"\);(\w+)\}' % re.escape(spec), raw)
            if m_ is None:
                if 'keyword("%s")' % spec in raw:
                    undecided.append('version_specifier: the alternative for "%s" has an unknown shape' % spec)
                else:
                    failures.append(fail('version_specifier', 'C13.kw.version_specifier-%s' % spec, 'no alternative lexes the specifier "%s"' % spec, ['C13'], vs))
            elif m_.group(2) != spec or m_.group(1) != m_.group(3):
                failures.append(fail('version_specifier', 'C13.kw.version_specifier-%s' % spec, 'the alternative for "%s" opens the region "%s"' % (spec, m_.group(2)), ['C13'], vs))
    # (8) names under which regions are opened: analysis kwsites (kwsites_check), shared with C05 and C11
    # (7) no production outside the committed list touches the keyword-version stack
    da = direct_access_check(fns)
    checked += da['checked']
    failures += [f_ for f_ in da['failures'] if 'C13' in f_['props']]
    # (6) the reserved-word tables themselves: equal (as sets) to the committed reference transcription of the
    #     keyword lists of IEEE 1364-1995 .. 1800-2017 Annex B (gvc/keywords_ref.json): detects drift of a table
    try:
        ref = json.load(open(os.path.join(VERIF, 'gvc', 'keywords_ref.json')))
        raw_kw = open(os.path.join(REPO, 'sv-parser-parser/src/keywords.rs'), encoding='utf-8').read()
        cur = {}
        for m in re.finditer(r'const\s+(KEYWORDS_\w+)\s*:\s*&\[&str\]\s*=\s*&\[(.*?)\];', raw_kw, re.S):
            cur[m.group(1)] = re.findall(r'"([^"]*)"', m.group(2))
        for tname, words in sorted(ref.items()):
            checked += 1
            if tname not in cur:
                undecided.append('keyword table %s not found (anchor lost)' % tname)
            elif set(cur[tname]) != set(words):
                missing = sorted(set(words) - set(cur[tname]))[:5]
                extra = sorted(set(cur[tname]) - set(words))[:5]
                failures.append(fail('keywords', 'C13.kw.table-content-%s' % tname, 'table %s differs from the reference: missing %s, extra %s' % (tname, missing, extra), ['C13'],
                                     Dummy('sv-parser-parser/src/keywords.rs', raw_kw[:raw_kw.index(tname)].count('\n') + 1)))
    except (IOError, ValueError) as ex:
        undecided.append('keyword tables could not be read: %s' % ex)
    # (5) keyword(t): end of input or a non-identifier character must follow
    kw = comb.get('keyword')
    checked += 1
    if kw is not None:
        raw = re.sub(r'\s+', '', kw.body_src)
        want = 'ws(alt((all_consuming(map(tag(t),into_locate)),terminated(map(tag(t),into_locate),peek(none_of(AZ09_))),)))'
        if want not in raw:
            if 'none_of(AZ09_)' not in raw or 'all_consuming(' not in raw:
                failures.append(fail('keyword', 'C13.kw.keyword-word-boundary', 'keyword(t) no longer requires end of input or a non-[A-Za-z0-9_] character after t', ['C13', 'C02'], kw))
            else:
                undecided.append('keyword(t): the word-boundary test has an unknown shape')
    else:
        undecided.append('keyword(t) not found (anchor lost)')
    return dict(failures=failures, checked=checked, undecided=undecided)


# =====================================================================================
# C06: the pp grammar accepts every position of directive-free text (two-byte look-ahead analysis)
# =====================================================================================
def _lit(e):
    """string literal of a ('lit', '"..."') node as bytes, or None"""
    if e[0] == 'lit' and e[1].startswith('"'):
        try:
            return bytes(eval('b' + e[1]))
        except Exception:
            try:
                return eval(e[1]).encode('utf-8')
            except Exception:
                return None
    return None


UNK = 'unknown-byte'


def _accepts(e, b1, b2):
    """does parser expression e accept at a position whose next bytes are b1 and b2 (b2 None = end of input, UNK = not known)?
    True / False / None (construct outside this small evaluator, or the answer depends on a byte that is not known)"""
    if e[0] != 'call' or e[1][0] not in ('var', 'path'):
        return None
    f, a = e[1][1], e[2]
    if f == 'is_not':
        l = _lit(a[0])
        return None if l is None else (b1 not in l)
    if f == 'is_a' or f == 'one_of':
        l = _lit(a[0])
        return None if l is None else (b1 in l)
    if f == 'none_of':
        l = _lit(a[0])
        return None if l is None else (b1 not in l)          # needs a character to be there: b1 is one
    if f == 'tag':
        l = _lit(a[0])
        if l is None or len(l) == 0 or len(l) > 2:
            return None
        if len(l) == 2 and b1 == l[0] and b2 == UNK:
            return None
        return b1 == l[0] and (len(l) == 1 or b2 == l[1])
    if f == 'alt':
        parts = a[0][1] if a and a[0][0] == 'tuple' else a
        rs = [_accepts(p_, b1, b2) for p_ in parts]
        if any(r is True for r in rs):
            return True
        return None if any(r is None for r in rs) else False
    if f == 'terminated' and len(a) == 2:
        first = _accepts(a[0], b1, b2)
        if first is not True:
            return first
        # the first parser must be a one-byte tag for the look-ahead to sit at b2
        if not (a[0][0] == 'call' and a[0][1] == ('var', 'tag') and _lit(a[0][2][0]) is not None and len(_lit(a[0][2][0])) == 1):
            return None
        return _lookahead(a[1], b2)
    return None


def _lookahead(e, b):
    """look-ahead parser at a position whose next byte is b (None = end of input)"""
    if e[0] == 'call' and e[1] == ('var', 'not'):
        e = ('call', ('var', 'peek'), [e])       # `not` consumes nothing: it is its own look-ahead
    if e[0] == 'call' and e[1] == ('var', 'peek'):
        inner = e[2][0]
        if inner[0] == 'call' and inner[1] == ('var', 'not'):
            if b is None:
                return True                      # nothing follows: the negated parser cannot match
            r = _accepts(inner[2][0], b, UNK)
            # only the byte at the look-ahead position is known: a longer tag that starts with it is not decided
            return None if r is None else (not r)
        if b is None:
            return False                         # a positive look-ahead needs a character
        return _accepts(inner, b, UNK)
    return None


def pp_total_run(fns, table, comb):
    """C06 'never rejected unless ...': at every position of a directive-free text whose next byte does not start a
    string (\"), an escaped identifier (\\), a directive (`) or a comment (// or /*), the run production
    source_description_not_directive must accept, whatever follows - including the end of the text."""
    failures, undecided, checked = [], [], 0
    sd = table.get('source_description')
    nd = table.get('source_description_not_directive')
    if sd is None or nd is None:
        return dict(failures=[fail('source_description', 'C06.pp.productions-found', 'pp productions not found (anchor lost)', ['C06'], None)], checked=0)
    alts = called_names(sd.ast)
    for need in ('comment', 'string_literal', 'escaped_identifier', 'source_description_not_directive', 'compiler_directive'):
        checked += 1
        if need not in alts:
            failures.append(fail('source_description', 'C06.pp.alternative-%s' % need, 'source_description no longer tries %s' % need, ['C06'], sd))
    # the repeated alternative list of the run production
    run = None
    for n in walk(nd.ast):
        if n[0] == 'call' and n[1] == ('var', 'many1') and n[2] and n[2][0][0] == 'call' and n[2][0][1] == ('var', 'alt'):
            run = n[2][0]
            break
    if run is None:
        undecided.append('source_description_not_directive: many1(alt((..))) not found')
        return dict(failures=failures, checked=checked, undecided=undecided)
    bad = []
    unknown = False
    npos = 0
    checked += 1          # one obligation: every (next byte, byte after / end of input) class is accepted
    for b1 in range(256):
        if b1 in b'`"\\':
            continue
        for b2 in [None] + list(range(256)):
            if b1 == ord('/') and b2 in (ord('/'), ord('*')):
                continue                          # a comment starts here
            npos += 1
            r = _accepts(run, b1, b2)
            if r is None:
                unknown = True
            elif r is False:
                bad.append((b1, b2))
    if unknown:
        undecided.append('source_description_not_directive uses a construct outside the look-ahead evaluator')
    if bad:
        b1, b2 = bad[0]
        fl = fail('source_description_not_directive', 'C06.pp.every-directive-free-position-is-accepted',
                  'no alternative accepts %d position kind(s), e.g. byte %r followed by %s' % (len(bad), chr(b1), 'end of input' if b2 is None else repr(chr(b2))), ['C06'], nd)
        if b1 < 128 and (b2 is None or b2 < 128):
            # a concrete directive-free text that must be accepted: replayed on the real preprocessor by replay_cmd
            fl['witness'] = dict(source='gvc look-ahead analysis', input=chr(b1) + ('' if b2 is None else chr(b2)), args=['pp', chr(b1) + ('' if b2 is None else chr(b2))],
                                 expected='TEXT (accepted, returned unchanged); a rejection prints ERR Preprocess(..)')
        failures.append(fl)
    # the dual obligation: the run of plain text STOPS in front of everything another alternative of source_description must see.
    # If it accepted the `/` of `//` or `/*`, a comment after plain text would become part of a NotDirective node and survive
    # strip_comments (C18), and a directive name inside it would be taken for a directive (C04); a swallowed backtick hides a directive from every arm (C04, C05, C10, C11); a swallowed string or
    # escaped-identifier opener lets the text inside be read as comments or directives (C18, C06)
    for b1, b2s, what, props in ((ord('/'), (ord('/'), ord('*')), 'the `/` that opens a comment', ['C18', 'C04', 'C11']),
                                 (ord('`'), [None] + list(range(256)), 'a backtick', ['C04', 'C05', 'C10', 'C11']),
                                 (ord('"'), [None] + list(range(256)), 'the quote that opens a string literal', ['C18', 'C06']),
                                 (ord('\\'), [None] + list(range(256)), 'the backslash that opens an escaped identifier', ['C18', 'C06'])):
        checked += 1
        rs = [_accepts(run, b1, b2) for b2 in b2s]
        if any(r is True for r in rs):
            b2 = [b for b, r in zip(b2s, rs) if r is True][0]
            failures.append(fail('source_description_not_directive', 'C18.pp.plain-text-run-stops-before-%s' % {47: 'a-comment', 96: 'a-directive', 34: 'a-string-literal', 92: 'an-escaped-identifier'}[b1],
                                 'the run of plain text consumes %s (followed by %s)' % (what, 'end of input' if b2 is None else repr(chr(b2))), props, nd))
        elif any(r is None for r in rs):
            undecided.append('source_description_not_directive: whether the run stops before %s is outside the look-ahead evaluator' % what)
    return dict(failures=failures, checked=checked, undecided=undecided)
