import re, collections, sys
from .front import load_functions
from .faithful import analyse

def prepare():
    fns = load_functions()
    table = {f.name: f for f in fns if f.is_parser}
    comb = {}
    for f in fns:
        if f.is_combinator:
            ps = re.findall(r'(?:mut\s+)?(\w+)\s*:\s*([^,)]+)', f.sig)
            f.params = [p for p, t in ps]
            f.parser_params = [p for p, t in ps if t.strip() in ('F', 'G', 'H')]
            f.closure_body = None
            st = f.ast[1] if f.ast else []
            if len(st) == 1 and st[0][0] == 'ret' and st[0][1][0] == 'closure' and st[0][1][2][0] == 'block':
                f.closure_body = st[0][1][2]
            comb[f.name] = f
    return fns, table, comb

if __name__ == '__main__':
    fns, table, comb = prepare()
    c = collections.Counter()
    bad = []
    for f in list(table.values()) + list(comb.values()):
        r = analyse(f, table, comb)
        c[r['status']] += 1
        if r['status'] == 'unsupported':
            c['unsupported:' + r['reason'][:40]] += 1
            bad.append((f.name, r['reason']))
        else:
            for lab, l, rr in r['vcs']:
                if l != rr:
                    print('MISMATCH', f.name, lab, l, rr)
                    c['mismatch'] += 1
    for k, v in sorted(c.items()):
        print(v, k)
    for b in bad[:80]:
        print('  ', b)
