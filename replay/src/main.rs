use std::collections::HashMap;
use std::path::PathBuf;
use sv_parser::*;

fn main() {
    let args: Vec<String> = std::env::args().collect();
    match args.get(1).map(|s| s.as_str()) {
        Some("trim") => trim(&args[2]),
        Some("parse") => parse(&args[2], args.get(3).map(|s| s.as_str())),
        Some("k8src") => print!("{}", k8_source(args[2].parse().unwrap())),
        Some("pp") => pp(&args[2], args.get(3).map(|s| s == "strip").unwrap_or(false)),
        _ => { eprintln!("usage: vreplay trim SRC"); std::process::exit(2); }
    }
}

fn trim(src: &str) {
    let defines: HashMap<String, Option<Define>> = HashMap::new();
    let (tree, _) = parse_sv_str(src, PathBuf::from("t.sv"), &defines, &[""], false, false).unwrap();
    for n in &tree {
        if let RefNode::Keyword(k) = n {
            println!("keyword get_str={:?} get_str_trim={:?}", tree.get_str(k), tree.get_str_trim(k));
        }
    }
}

fn pp(src: &str, strip: bool) {
    let defines: HashMap<String, Option<Define>> = HashMap::new();
    match preprocess_str(src, PathBuf::from("t.sv"), &defines, &[""], false, strip, 0, 0) {
        Ok((t, d)) => {
            println!("TEXT {:?}", t.text());
            let mut o = vec![];
            for i in 0..t.text().len() { o.push(t.origin(i).map(|(p, q)| (p.to_string_lossy().to_string(), q))); }
            println!("ORIGINS {:?}", o);
            let mut k: Vec<_> = d.keys().filter(|k| !k.starts_with("SV_COV")).cloned().collect(); k.sort();
            println!("DEFINES {:?}", k);
        }
        Err(e) => println!("ERR {:?}", e),
    }
}

/// parse SRC [capacity|unbounded]: ACCEPT/REJECT, and the simple identifiers of the tree
fn parse(src: &str, cap: Option<&str>) {
    #[cfg(sv_parser_verif)]
    match cap {
        Some("unbounded") => sv_parser_parser::set_memo_capacity(None),
        Some(n) => sv_parser_parser::set_memo_capacity(Some(n.parse().unwrap())),
        None => {}
    }
    #[cfg(not(sv_parser_verif))]
    let _ = cap;
    let src = if src == "@k8" { k8_source(300) } else if src == "@k7" { k8_source(0) } else { src.to_string() };
    let defines: HashMap<String, Option<Define>> = HashMap::new();
    match parse_sv_str(&src, PathBuf::from("t.sv"), &defines, &[""], false, false) {
        Ok((tree, _)) => {
            let mut ids = vec![];
            for n in &tree {
                if let RefNode::SimpleIdentifier(x) = n {
                    ids.push(tree.get_str_trim(x).unwrap_or("").to_string());
                }
            }
            println!("ACCEPT ids={:?}", ids.iter().filter(|x| x.as_str() == "logic" || x.as_str() == "module" || x.as_str() == "begin").collect::<Vec<_>>());
        }
        Err(e) => println!("REJECT {:?}", e),
    }
}

/// the K7/K8 input: `wire logic;` after `end_keywords must be rejected (1800-2017 set in force)
fn k8_source(n: usize) -> String {
    let mut s = String::from("module m(a);\n`begin_keywords \"1364-2001\"\n");
    for i in 0..n { s.push_str(&format!("wire w{};\n", i)); }
    s.push_str("input a;\n`end_keywords\nwire logic;\nendmodule\n");
    s
}
