use std::collections::HashMap;
use std::path::PathBuf;
use sv_parser::*;

fn main() {
    let args: Vec<String> = std::env::args().collect();
    match args.get(1).map(|s| s.as_str()) {
        Some("trim") => trim(&args[2]),
        Some("pp") => pp(&args[2], args.get(3).map(|s| s == "strip").unwrap_or(false)),
        _ => { eprintln!("usage: vreplay trim SRC"); std::process::exit(2); }
    }
}

fn trim(src: &str) {
    let defines: HashMap<String, Option<Define>> = HashMap::new();
    let (tree, _) = parse_sv_str(src, PathBuf::from("t.sv"), &defines, &[""], false, false).unwrap();
    for n in &tree {
        if let RefNode::Keyword(k) = n {
            println!("keyword get_str={:?} get_str_trim={:?}", tree.get_str(k), tree.get_str_trim(k));
        }
    }
}

fn pp(src: &str, strip: bool) {
    let defines: HashMap<String, Option<Define>> = HashMap::new();
    match preprocess_str(src, PathBuf::from("t.sv"), &defines, &[""], false, strip, 0, 0) {
        Ok((t, d)) => {
            println!("TEXT {:?}", t.text());
            let mut o = vec![];
            for i in 0..t.text().len() { o.push(t.origin(i).map(|(p, q)| (p.to_string_lossy().to_string(), q))); }
            println!("ORIGINS {:?}", o);
            let mut k: Vec<_> = d.keys().filter(|k| !k.starts_with("SV_COV")).cloned().collect(); k.sort();
            println!("DEFINES {:?}", k);
        }
        Err(e) => println!("ERR {:?}", e),
    }
}
