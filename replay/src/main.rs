use std::collections::HashMap;
use std::path::PathBuf;
use sv_parser::*;

/// run f; a panic of the code under test is a result (Err(message)), not the end of the enumeration
fn guarded<T>(f: impl FnOnce() -> T) -> Result<T, String> {
    std::panic::catch_unwind(std::panic::AssertUnwindSafe(f)).map_err(|e| {
        if let Some(s) = e.downcast_ref::<&str>() { s.to_string() } else if let Some(s) = e.downcast_ref::<String>() { s.clone() } else { "panic".to_string() }
    })
}

fn main() {
    if std::env::args().nth(1).map(|c| c.ends_with("bound") || c == "c03long").unwrap_or(false) {
        std::panic::set_hook(Box::new(|_| {}));      // panics are caught and reported per input
    }
    let args: Vec<String> = std::env::args().collect();
    match args.get(1).map(|s| s.as_str()) {
        Some("trim") => trim(&args[2]),
        Some("c06bound") => c06bound(args.get(2).map(|x| x.parse().unwrap()).unwrap_or(6)),
        Some("c03long") => c03long(args.get(2).map(|x| x.parse().unwrap()).unwrap_or(300)),
        Some("c05bound") => c05bound(args.get(2).map(|x| x.parse().unwrap()).unwrap_or(6)),
        Some("parse") => parse(&args[2], args.get(3).map(|s| s.as_str())),
        Some("k8src") => print!("{}", k8_source(args[2].parse().unwrap())),
        Some("pp") => pp(&args[2], args.get(3).map(|s| s == "strip").unwrap_or(false)),
        _ => { eprintln!("usage: vreplay trim SRC"); std::process::exit(2); }
    }
}

fn trim(src: &str) {
    let defines: HashMap<String, Option<Define>> = HashMap::new();
    let (tree, _) = parse_sv_str(src, PathBuf::from("t.sv"), &defines, &[""], false, false).unwrap();
    for n in &tree {
        if let RefNode::Keyword(k) = n {
            println!("keyword get_str={:?} get_str_trim={:?}", tree.get_str(k), tree.get_str_trim(k));
        }
    }
}

fn pp(src: &str, strip: bool) {
    let defines: HashMap<String, Option<Define>> = HashMap::new();
    match preprocess_str(src, PathBuf::from("t.sv"), &defines, &[""], false, strip, 0, 0) {
        Ok((t, d)) => {
            println!("TEXT {:?}", t.text());
            let mut o = vec![];
            for i in 0..t.text().len() { o.push(t.origin(i).map(|(p, q)| (p.to_string_lossy().to_string(), q))); }
            println!("ORIGINS {:?}", o);
            let mut k: Vec<_> = d.keys().filter(|k| !k.starts_with("SV_COV")).cloned().collect(); k.sort();
            println!("DEFINES {:?}", k);
        }
        Err(e) => println!("ERR {:?}", e),
    }
}

/// parse SRC [capacity|unbounded]: ACCEPT/REJECT, and the simple identifiers of the tree
fn parse(src: &str, cap: Option<&str>) {
    #[cfg(sv_parser_verif)]
    match cap {
        Some("unbounded") => sv_parser_parser::set_memo_capacity(None),
        Some(n) => sv_parser_parser::set_memo_capacity(Some(n.parse().unwrap())),
        None => {}
    }
    #[cfg(not(sv_parser_verif))]
    let _ = cap;
    let src = if src == "@k8" { k8_source(300) } else if src == "@k7" { k8_source(0) } else { src.to_string() };
    let defines: HashMap<String, Option<Define>> = HashMap::new();
    match parse_sv_str(&src, PathBuf::from("t.sv"), &defines, &[""], false, false) {
        Ok((tree, _)) => {
            let mut ids = vec![];
            for n in &tree {
                if let RefNode::SimpleIdentifier(x) = n {
                    ids.push(tree.get_str_trim(x).unwrap_or("").to_string());
                }
            }
            println!("ACCEPT ids={:?}", ids.iter().filter(|x| x.as_str() == "logic" || x.as_str() == "module" || x.as_str() == "begin").collect::<Vec<_>>());
        }
        Err(e) => println!("REJECT {:?}", e),
    }
}

/// the K7/K8 input: `wire logic;` after `end_keywords must be rejected (1800-2017 set in force)
fn k8_source(n: usize) -> String {
    let mut s = String::from("module m(a);\n`begin_keywords \"1364-2001\"\n");
    for i in 0..n { s.push_str(&format!("wire w{};\n", i)); }
    s.push_str("input a;\n`end_keywords\nwire logic;\nendmodule\n");
    s
}

/// K3/K4 exactly: the trivia run behind a string literal / escaped identifier is pushed with the literal and then once
/// more for each of its nodes the event loop emits by itself: a run of blanks/tabs at its START (a WhiteSpace::Space
/// node; a run that starts with a line break is ONE Newline node, which is not emitted again) and every comment in it.
fn c06_trivia_emitted_twice(b: &[u8], i: usize) -> bool {
    let n = b.len();
    if i >= n { return false; }
    if b[i] == b' ' || b[i] == b'\t' { return true; }
    let mut k = i;
    while k < n {
        if b[k] == b' ' || b[k] == b'\t' || b[k] == b'\r' || b[k] == b'\n' { k += 1; }
        else if b[k] == b'/' && k + 1 < n && (b[k + 1] == b'/' || b[k + 1] == b'*') { return true; }
        else { return false; }
    }
    false
}

/// Reference scan of a directive-free text (no backtick): may the preprocessor reject it?
/// Only for an unterminated string, an unterminated block comment or a lone backslash (C06).
/// Also tells whether a string / escaped identifier is directly followed by white space or a comment
/// (known findings K3/K4: that trivia is emitted twice, so byte equality is not demanded there).
fn c06_reference(b: &[u8]) -> (bool, bool) {
    let n = b.len();
    let mut i = 0;
    let mut k34 = false;
    while i < n {
        if b[i] == b'/' && i + 1 < n && b[i + 1] == b'/' {
            i += 2;
            while i < n && b[i] != b'\n' { i += 1; }
            if i < n { i += 1; }
        } else if b[i] == b'/' && i + 1 < n && b[i + 1] == b'*' {
            let mut j = i + 2;
            let mut closed = false;
            while j + 1 < n { if b[j] == b'*' && b[j + 1] == b'/' { closed = true; break; } j += 1; }
            if !closed { return (true, k34); }
            i = j + 2;
        } else if b[i] == b'"' {
            let mut j = i + 1;
            let mut closed = false;
            while j < n {
                if b[j] == b'\\' { if j + 1 >= n { break; } j += 2; }
                else if b[j] == b'"' { closed = true; break; }
                else { j += 1; }
            }
            if !closed { return (true, k34); }
            i = j + 1;
            if c06_trivia_emitted_twice(b, i) { k34 = true; }
        } else if b[i] == b'\\' {
            let mut j = i + 1;
            while j < n && !(b[j] == b' ' || b[j] == b'\t' || b[j] == b'\r' || b[j] == b'\n') { j += 1; }
            if j == i + 1 { return (true, k34); }
            i = j;
            if c06_trivia_emitted_twice(b, i) { k34 = true; }
        } else {
            i += 1;
        }
    }
    (false, k34)
}

/// BOUNDED stand-in (never counted as proved): every text over a small alphabet up to length n through the real
/// preprocess_str; a text the reference scan says must be accepted has to come back Ok (and unchanged, K3/K4 aside).
fn c06bound(n: usize) {
    let sigma: [u8; 8] = [b'"', b'\\', b'/', b'*', b'\n', b'\r', b' ', b'a'];
    let defines: HashMap<String, Option<Define>> = HashMap::new();
    let mut total: u64 = 0;
    let mut must: u64 = 0;
    let mut bad: Vec<String> = vec![];
    let mut buf: Vec<u8> = vec![];
    fn rec(buf: &mut Vec<u8>, n: usize, sigma: &[u8; 8], defines: &HashMap<String, Option<Define>>, total: &mut u64, must: &mut u64, bad: &mut Vec<String>) {
        *total += 1;
        let (may_reject, k34) = c06_reference(buf);
        if !may_reject {
            *must += 1;
            let s = std::str::from_utf8(buf).unwrap();
            match guarded(|| preprocess_str(s, PathBuf::from("t.sv"), defines, &[""], false, false, 0, 0)) {
                Ok(Ok((t, _))) => { if !k34 && t.text() != s && bad.len() < 5 { bad.push(format!("CHANGED {:?} -> {:?}", s, t.text())); } }
                Ok(Err(e)) => { if bad.len() < 5 { bad.push(format!("REJECTED {:?}: {:?}", s, e)); } }
                Err(m) => { if bad.len() < 5 { bad.push(format!("REJECTED {:?}: PANIC {}", s, m)); } }
            }
        }
        if buf.len() < n {
            for c in sigma.iter() { buf.push(*c); rec(buf, n, sigma, defines, total, must, bad); buf.pop(); }
        }
    }
    rec(&mut buf, n, &sigma, &defines, &mut total, &mut must, &mut bad);
    println!("C06BOUND n={} texts={} must_accept={} bad={}", n, total, must, bad.len());
    for b in bad { println!("  {}", b); }
}

/// BOUNDED stand-in for assumption A-btree (never counted as proved): a directive-free text of n tokens makes
/// PreprocessedText hold 2n segments in std's BTreeMap<Range, Origin> (many node splits); every output
/// position must come back from origin() as the same offset of the same file.
fn c03long(n: usize) {
    let defines: HashMap<String, Option<Define>> = HashMap::new();
    let mut s = String::new();
    for i in 0..n {
        for _ in 0..(1 + i % 3) { s.push('a'); }
        // a comment ends the run of ordinary text: every token gives two segments (text, comment)
        s.push_str(match i % 4 { 0 => " /*c*/ ", 1 => "// x\n", 2 => "  /**/", _ => " \n /* y */\n " });
    }
    let mut bad: Vec<String> = vec![];
    let mut probes: u64 = 0;
    match guarded(|| preprocess_str(&s, PathBuf::from("t.sv"), &defines, &[""], false, false, 0, 0)) {
        Ok(Ok((t, _))) => {
            if t.text() != s { bad.push(format!("CHANGED text of {} tokens", n)); }
            for pos in 0..s.len() {
                probes += 1;
                match guarded(|| t.origin(pos).map(|(p, q)| (p.clone(), q))) {
                    Ok(Some((p, q))) if p == PathBuf::from("t.sv") && q == pos => (),
                    Ok(other) => { if bad.len() < 5 { bad.push(format!("ORIGIN {:?} -> {:?}", pos, other)); } }
                    Err(m) => { if bad.len() < 5 { bad.push(format!("ORIGIN {:?} -> PANIC {}", pos, m)); } }
                }
            }
            probes += 1;
            if guarded(|| t.origin(s.len() + 1).is_some()).unwrap_or(true) && bad.len() < 5 { bad.push(format!("ORIGIN {:?} -> Some (or panic) past the end", s.len() + 1)); }
        }
        Ok(Err(e)) => bad.push(format!("REJECTED text of {} tokens: {:?}", n, e)),
        Err(m) => bad.push(format!("REJECTED text of {} tokens: PANIC {}", n, m)),
    }
    println!("C03LONG n={} texts={} must_accept={} bad={}", n, probes, probes, bad.len());
    for b in bad { println!("  {}", b); }
}

/// all well-nested actual-argument texts up to `n` bytes over  a , ( ) [ ] { } "  (strings hold only a and ,)
fn c05_gen(n: usize) -> Vec<String> {
    // items(k): texts of exactly k bytes that are a sequence of items
    let mut seqs: Vec<Vec<String>> = vec![vec![String::new()]];
    for k in 1..=n {
        let mut cur: Vec<String> = vec![];
        // first item of length l, rest of length k-l
        for l in 1..=k {
            let mut firsts: Vec<String> = vec![];
            if l == 1 { firsts.push("a".into()); firsts.push(",".into()); }
            if l >= 2 {
                for (o, c) in [('(', ')'), ('[', ']'), ('{', '}')] {
                    for inner in &seqs[l - 2] { firsts.push(format!("{}{}{}", o, inner, c)); }
                }
                // string literal of l bytes: l-2 characters from {a , ( ]}
                let m = l - 2;
                let alpha = ['a', ',', '(', ']'];
                let mut idx = vec![0usize; m];
                loop {
                    let body: String = idx.iter().map(|i| alpha[*i]).collect();
                    firsts.push(format!("\"{}\"", body));
                    let mut p = 0;
                    while p < m { idx[p] += 1; if idx[p] < alpha.len() { break; } idx[p] = 0; p += 1; }
                    if p == m { break; }
                }
            }
            for f in &firsts { for r in &seqs[k - l] { cur.push(format!("{}{}", f, r)); } }
        }
        cur.sort(); cur.dedup();
        seqs.push(cur);
    }
    seqs.into_iter().skip(1).flatten().collect()
}

/// reference splitter (IEEE 22.5.1): commas at nesting depth 0 outside strings separate the actual arguments
fn c05_split(x: &str) -> Vec<String> {
    let mut out = vec![String::new()];
    let mut depth = 0i32;
    let mut in_str = false;
    for c in x.chars() {
        if in_str { if c == '"' { in_str = false; } out.last_mut().unwrap().push(c); continue; }
        match c {
            '"' => { in_str = true; out.last_mut().unwrap().push(c); }
            '(' | '[' | '{' => { depth += 1; out.last_mut().unwrap().push(c); }
            ')' | ']' | '}' => { depth -= 1; out.last_mut().unwrap().push(c); }
            ',' if depth == 0 => out.push(String::new()),
            _ => out.last_mut().unwrap().push(c),
        }
    }
    out
}

/// BOUNDED stand-in (never counted as proved) for the argument-lexing clause of C05: `M(X) with M(a,b) = <a|b>
fn c05bound(n: usize) {
    let defines: HashMap<String, Option<Define>> = HashMap::new();
    let xs = c05_gen(n);
    let mut bad: Vec<String> = vec![];
    let mut checked = 0u64;
    for x in &xs {
        let parts = c05_split(x);
        let src = format!("`define M(a,b) <a|b>\n`M({})\n", x);
        let r = match guarded(|| preprocess_str(&src, PathBuf::from("t.sv"), &defines, &[""], false, false, 0, 0)) {
            Ok(r) => r,
            Err(m) => { checked += 1; if bad.len() < 5 { bad.push(format!("ARGS {:?}: PANIC {}", x, m)); } continue; }
        };
        checked += 1;
        let ok = if parts.len() == 1 {
            matches!(&r, Err(sv_parser::Error::DefineArgNotFound(f)) if f == "b")
        } else {
            match &r { Ok((t, _)) => t.text().contains(&format!("<{}|{}>", parts[0], parts[1])), Err(_) => false }
        };
        if !ok && bad.len() < 5 {
            bad.push(format!("ARGS {:?}: expected {} got {}", x,
                if parts.len() == 1 { "DefineArgNotFound(b)".to_string() } else { format!("<{}|{}>", parts[0], parts[1]) },
                match &r { Ok((t, _)) => format!("{:?}", t.text().lines().last().unwrap_or("")), Err(e) => format!("{:?}", e) }));
        }
    }
    println!("C05BOUND n={} texts={} bad={}", n, checked, bad.len());
    for b in bad { println!("  {}", b); }
}
