use std::collections::HashMap;
use std::path::PathBuf;
use sv_parser::*;

fn main() {
    let args: Vec<String> = std::env::args().collect();
    match args.get(1).map(|s| s.as_str()) {
        Some("trim") => trim(&args[2]),
        _ => { eprintln!("usage: vreplay trim SRC"); std::process::exit(2); }
    }
}

fn trim(src: &str) {
    let defines: HashMap<String, Option<Define>> = HashMap::new();
    let (tree, _) = parse_sv_str(src, PathBuf::from("t.sv"), &defines, &[""], false, false).unwrap();
    for n in &tree {
        if let RefNode::Keyword(k) = n {
            println!("keyword get_str={:?} get_str_trim={:?}", tree.get_str(k), tree.get_str_trim(k));
        }
    }
}
