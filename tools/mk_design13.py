#!/usr/bin/env python3
"""prints the markdown table of DESIGN.md section 13 from seeded/<id>/meta.json (verdicts of the last matrix run)"""
import json, glob, os, re
V = os.path.dirname(os.path.dirname(os.path.abspath(__file__)))
rows = []
for d in sorted(glob.glob(os.path.join(V, 'seeded', 'C*-*'))):
    mp = os.path.join(d, 'meta.json')
    if not os.path.exists(mp):
        continue
    m = json.load(open(mp))
    sid = m['id']
    own = m['property']
    desc = m.get('description_from_author', '')
    n = int(sid.split('-')[1])
    k = 1 if n % 2 == 1 else 2
    heads = [h for h in re.findall(r'^#+\s*(.*(?:[Cc]hange|change)\s*%d.*)$' % k, desc, re.M)]
    title = heads[0] if heads else ''
    title = re.sub(r'`?out/change\d\.diff`?', '', title)
    title = re.sub(r'^[Cc]hange\s*\d\s*[-:.(—]*\s*', '', title).strip(' -:—()`')
    title = re.sub(r'^change\d\.diff\s*[-:—]*\s*', '', title).strip(' -:—')
    ch = m.get('checks', {})
    ownv = ch.get(own, {})
    verdict = 'VIOLATION' if own in m.get('caught_by', []) else ('undecided' if own in m.get('undecided_in', []) else '**missed**')
    first = ''
    if ownv.get('violations'):
        mm = re.search(r'obligation=(\S+)', ownv['violations'][0])
        first = '`%s`' % mm.group(1) if mm else ''
    elif ownv.get('undecided'):
        first = ownv['undecided'][0][10:150].replace('|', '/')
    others = [c for c in m.get('caught_by', []) if c != own]
    rows.append('| %s | %s | %s | %s | %s |' % (sid, title[:110].replace('|', '/'), verdict, first, ' '.join(others) or '-'))
print('| change | what it does (author\'s heading) | own property | first failing obligation / reason | also reported under |')
print('|---|---|---|---|---|')
print('\n'.join(rows))
