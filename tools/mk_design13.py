#!/usr/bin/env python3
"""rewrites section 13 of DESIGN.md from seeded/results.json, seeded/<id>/meta.json and the validation summaries
(verdicts of the last matrix run of tools/run_checks_on_seeds.py)."""
import json, glob, os, re, collections
V = os.path.dirname(os.path.dirname(os.path.abspath(__file__)))
res = json.load(open(os.path.join(V, 'seeded', 'results.json')))


def own(v):
    p = v['property']
    return 'V' if p in v['caught_by'] else 'U' if p in v['undecided_in'] else 'M'


def title_of(m):
    desc = m.get('description_from_author', '')
    n = int(m['id'].split('-')[1])
    k = 1 if n % 2 == 1 else 2
    heads = re.findall(r'^#+\s*(.*?[Cc]hange\s*%d.*)$' % k, desc, re.M)
    t = heads[0] if heads else ''
    t = re.sub(r'`?out/change\d\.diff`?', '', t)
    t = re.sub(r'^[Cc]hange\s*\d\s*', '', t)
    t = re.sub(r'^(\.diff)?\s*[-:.(—–]*\s*', '', t).strip(' -:—–()`')
    return t[:120].replace('|', '/')


NR = 10
rows = {k: [] for k in range(1, NR + 1)}


def round_of(n):
    return min(NR, (n + 1) // 2)

for d in sorted(glob.glob(os.path.join(V, 'seeded', 'C*-*'))):
    mp = os.path.join(d, 'meta.json')
    if not os.path.exists(mp):
        continue
    m = json.load(open(mp))
    sid = m['id']
    r = res.get(sid)
    if not r:
        continue
    n = int(sid.split('-')[1])
    rnd = round_of(n)
    ownp = m['property']
    verdict = {'V': 'VIOLATION', 'U': 'undecided', 'M': '**missed**'}[own(r)]
    first = ''
    if r['violations'].get(ownp):
        mm = re.search(r'obligation=(\S+)', r['violations'][ownp][0])
        first = '`%s`' % mm.group(1) if mm else ''
    elif r['undecided'].get(ownp):
        first = re.sub(r'^UNDECIDED\s*', '', r['undecided'][ownp][0])[:130].replace('|', '/')
    others = [c for c in r['caught_by'] if c != ownp]
    rows[rnd].append('| %s | %s | %s | %s | %s |' % (sid, title_of(m), verdict, first, ' '.join(others) or '-'))

seeded = {k: v for k, v in res.items() if v['kind'] == 'seeded'}
ben = {k: v for k, v in res.items() if v['kind'] == 'benign'}
tot = collections.Counter(own(v) for v in seeded.values())
per = {}
for k, v in seeded.items():
    n = int(k.split('-')[1])
    rnd = round_of(n)
    per.setdefault(rnd, collections.Counter())[own(v)] += 1
HDR = '| change | what it does (author\'s heading) | own property | first failing obligation / reason for indecision | also reported under |\n|---|---|---|---|---|\n'
out = []
out.append('## 13. Seeded changes: what catches what\n')
out.append("""%d property-breaking changes were written by fresh sub-agents in ten rounds (two per claimed property in rounds 1-3; C19 once,
after it was claimed; rounds 4-6 asked for SMALL slips - a changed operator or constant, a wrong variable, an off-by-one, a wrong string
literal, a Cargo feature - round 4 for eight properties, round 5 for the other nine, round 6 for fifteen with the instruction to
look at code the property depends on INDIRECTLY (lexers, the proc-macro crate, trait impls, constants, Cargo.toml), round 7 for all
seventeen with the instruction to look at DATA and METADATA (tables, constants, field order in node constructors, attributes on
productions, derive lists, Cargo features) and to put at least one change outside `preprocess.rs`, round 8 the same with RARELY EXECUTED code and boundary cases (error paths, empty
groups, CR LF, escaped identifiers, names colliding with predefined ones, nesting of two features), round 9 with CONFIGURATIONS and entry
points the tests never use (strip_comments, ignore_include, allow_incomplete, non-empty pre_defines, several include paths, the library-map
and the file-based entry points, later calls on a thread, get_origin / Display / the unwrap macros), round 10 with ARITHMETIC and
positions (offsets, lengths, line numbers, range ends, comparison operators, byte versus character counts; one or two lines)). Each sub-agent saw
only the text of one property, a scratch worktree of `/repo` under `/tmp`, and - from the second round on - one-line descriptions of the
changes already made for that property, so as not to repeat them; nothing from `/verif`. Each change was confirmed here
(`tools/validate_seeds.py`, scratch worktree outside `/repo` and `/verif`): the patch applies to `/repo` HEAD, the 120-test suite still
passes, the author's demonstration passes on the unchanged tree and fails with the change (`seeded/validation_summary*.json`; per change
`seeded/<id>/{patch.diff,demo.rs,meta.json}`; C17-5/6 by hand because their demonstrations need `--cfg sv_parser_verif`). Then EVERY
claimed check was run against EVERY change (`tools/run_checks_on_seeds.py`, `VERIF_REPO`/`VERIF_OUT` pointing outside `/repo` and
`/verif`); nothing is ever committed to `/repo`. `seeded/RESULTS.md` / `seeded/results.json` hold the full matrix of the last run. Ids:
`Cxx-1/2` first round, `Cxx-3/4` second, `Cxx-5/6` third, `Cxx-7/8` fourth, `Cxx-9/10` fifth, `Cxx-11/12` sixth, `Cxx-13/14` seventh, `Cxx-15/16` eighth, `Cxx-17/18` ninth, `Cxx-19/20` tenth.

Result of the last run (own property of each change): **%d VIOLATION, %d undecided (exit 2), %d missed** of %d
(%s). Undecided always means that the changed code left what the verifier front end or an
annotation anchor accepts (a new helper with `?`, iterator chains with closures, a new struct, a rewritten `quote!` template, a
changed signature), or - since the fourth pass - that a production of the pp grammar whose accepted language is an ASSUMED contract
(A-pplex) is no longer the pinned text; it is never an alarm. The verdicts above are those of the checks AS STRENGTHENED after each
round; what each round found missing when it was FIRST run is told in 13.10.
""" % (len(seeded), tot['V'], tot['U'], tot['M'], len(seeded),
       '; '.join('round %d: %s' % (r, ', '.join('%d %s' % (per.get(r, collections.Counter())[k], n) for k, n in (('V', 'V'), ('U', 'U'), ('M', 'missed')))) for r in range(1, NR + 1))))
for rnd in range(1, NR + 1):
    out.append('\n### 13.%d Round %d\n\n' % (rnd, rnd) + HDR + '\n'.join(rows[rnd]) + '\n')
alarms = {k: v['caught_by'] for k, v in ben.items() if v['caught_by']}
und = {k: v['undecided_in'] for k, v in ben.items() if v['undecided_in']}
out.append("""
### 13.%d Benign patches (the property holds; an alarm here is a false alarm)

%d patches in `seeded/benign/`: ten written here (B1-B10: comments and layout, renamed locals, reordered independent statements
and `skip_nodes.push` calls, an equivalent expression, a local for a forwarded flag, `.iter()` over the keyword table, reordered
match arms, an equivalent combinator form, a constant once-cell) and twenty-four behaviour-preserving refactorings written by six
fresh sub-agents (RA-RD in the third pass: extract helper, loop into iterator adapter, `if let` into `match`, early return, named
locals, generated code built with `map`, ..; RE, RF in the fourth pass, aimed at the places the new obligations look at: the fragment
lexers, `macro_text`, the seeding of the define table, the error mapping, the identifier lexers and the keyword stack, `Cargo.toml`,
the conversions, `Range`, `split_text`). Last run: **%d alarms**; %d patches leave at least one check undecided (undecided is exit 2,
not an alarm; the premise closure and A-pplex made this list longer on purpose):

| patch | undecided checks |
|---|---|
%s
""" % (NR + 1, len(ben), len(alarms), len(und), '\n'.join('| %s | %s |' % (k, ' '.join(v)) for k, v in sorted(und.items())) or '| - | - |'))
if alarms:
    out.append('\nALARMS ON BENIGN PATCHES (to be corrected): %s\n' % alarms)
out.append("""
### 13.%d What the rounds taught, and what was strengthened because of them

Round 1: unit split (C05-2), unit display (C08-2), `C17.direct-state-access` (C17-2), `okfrom` (C20-1), `Chars::count` spec and
pt under C06 (C06-2), soft anchors and quarantine (C04-2, C18-2, B3), multiset skip contract (B4), gvc.pptotal (C06-1).
Round 2: unit kwstack (C13-4 de-duplicated version stack; C13-2 binary search over unsorted tables through the per-run
sortedness facts), gvc.entries under C15 (C15-3), gvc.stateless under C20 (C20-4), `skip`/`into_iter` on the iterator shim
(C16-3), rtmu under C18 (C18-4), bounded stand-ins c06bound / c05bound (C06-3, C06-4, C05-4), per-property attribution (the
cross-property alarms of this round), K10 (found by the C17 sub-agent's capacity sweep on the UNCHANGED tree).
Round 3: `RECURSIVE_LIMIT == 64` pinned (C09-6), access to the version stack from a new production as a C13 obligation (C13-6),
no nom streaming parser (C15-5), string tests in `is_predefined_text_macro` (C04-5), `canonicalize()?` through
`From<io::Error>` (C08-5), `Chars::count` in `into_locate` (C01-5), exact K3/K4 exemption in c06bound (C06-6), contract-true
iterator adapters + R-closurepat (C05-5), the include arm's `ignore_include` obligation and one call-site copy per property
set (C10-3 had become a miss through masking), per-branch knowledge in the lexer evaluation (C13-5), frozen stretches of
`preprocess_str` (C06-5 was a miss: now undecided), the R-tls premise (C08-6), C01 clause on `parse_*_pp` (C01-6 was a miss).
Round 4 (small slips; four of sixteen were first MISSED, i.e. exit 0 on a tree that breaks the property): the define table handed
to and taken back from an included file is a premise of C04 as well (C04-7 was only reported under C10/C11), `into_locate`
is part of C06 (C06-7 was only reported under C01), gvc.shadow - an alternative of an ordered choice whose literal has an earlier
literal of the same `alt` as a prefix can never be taken (C11-7: backslash-CR tried before backslash-CR-LF in `macro_text`), and
the remaining input must be threaded through every step of a production (C15-8: `let (_, b) = ..(s)?` in
`source_text_incomplete` parses the same text twice; now a failure of gvc.top for C15 and of the faithfulness lemma for C01);
`first()` next to `last()` on the version stack (C13-7).
Round 5 (small slips, the other nine properties; 6 of 18 first MISSED), round 6 (indirect dependencies; 12 of 30 first MISSED),
round 7 (data and metadata; 8 of 34 first MISSED) and round 8 (rarely executed code and boundary cases; 13 of 34 first MISSED, two of them - C17-15/16, alternatives re-ordered so that a white space holding a directive is lexed twice - further instances of the listed finding K7, now undecided) and round 9 (configurations and entry points the tests never use; 9 of 30 first MISSED) and round 10 (arithmetic and positions; 3 of 25 first MISSED):
see section 10.3e for the obligations they led to - gvc.kwsites, the dual obligation of gvc.pptotal, the C18 projection of
`split_text`, once-initialised statics, the capacity of the recursion-flag table read from Cargo.toml, the span / line projections of
the derive-generated `Locate` fold and `Locate::str` as premises of every arms-based property, conditional selection under C11,
table adoption under C09, mode selection under C01, `Error::Parse` constructed by the strict parsers only and `init()`'s resets
under C15, assumption A-pplex guarded by fingerprints (gvc.assumed), and the premise closure in `check` (a refuted callee
contract leaves every property that relies on it undecided).
Benign round: two false alarms corrected, R-inline, tolerant panic inventory (section 10.5).
Still undecided and why: helpers with `?` or a changed signature (C01-6, C15-6, C03-5), iterator chains (`rev().find_map`,
`map().collect()`, `retain`: C03-6, C20-5, C11-5), new data structures or API of std's B-tree (C08-6, C03-4), a new arm with a new
method (C04-6), annotation anchors that no longer fit the restructured code (C05-6, C16-6, C16-2, C18-6), a deleted state variable
(C10-5), a statement in a frozen stretch (C06-5).
""" % (NR + 2))
text = ''.join(out)
p = os.path.join(V, 'DESIGN.md')
t = open(p).read()
i = t.index('## 13. Seeded changes: what catches what')
open(p, 'w').write(t[:i] + text)
print('section 13 rewritten: %d seeded (%s), %d benign, %d alarms' % (len(seeded), dict(tot), len(ben), len(alarms)))
