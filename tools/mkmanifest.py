#!/usr/bin/env python3
"""regenerate MANIFEST.json from vx/registry.py (claimed properties) and NA (not applicable)"""
import json, os, sys, subprocess
VERIF = os.path.dirname(os.path.dirname(os.path.abspath(__file__)))
sys.path.insert(0, VERIF)
from vx import registry
props = [json.loads(l) for l in open(os.path.join(VERIF, 'properties.jsonl'))]
hooks_commits = []
try:
    out = subprocess.check_output(['git', '-C', '/repo', 'log', '--format=%H %s'], text=True)
    hooks_commits = [l.split()[0] for l in out.splitlines() if ' hook:' in l or l.split(' ', 1)[1].startswith('hook')]
except Exception:
    pass
m = {
    "version": 1,
    "setup_cmd": "cd /verif && ./setup.sh",
    "hooks": {
        "guard": "sv_parser_verif",
        "enable": "RUSTFLAGS='--cfg sv_parser_verif' for the replay crate; Kani harnesses sit under cfg(kani) which cargo-kani sets itself",
        "baseline_off_cmd": "cd /repo && cargo test --workspace --no-fail-fast --offline",
        "source_commits": hooks_commits,
        "add_only": True,
    },
    "engines": [
        {"name": "vx", "path": "vx/", "serves_properties": sorted(p for p, c in registry.PROPS.items() if c.get('units')),
         "kind_free_text": "extracts the real functions from /repo on every run, splices the contracts of units/*.vx, runs Verus (single-file) and maps diagnostics back to named obligations"},
        {"name": "gvc", "path": "gvc/", "serves_properties": sorted(p for p, c in registry.PROPS.items() if any(e['module'].startswith('gvc') for e in c.get('engines', []))),
         "kind_free_text": "generated contracts and verification conditions for the ~1300 nom productions, discharged by Verus/z3 or by the generator's modular fixpoint (frame conditions)"},
    ],
    "checks": [],
    "not_applicable": [],
    "notes": "exit 0 holds / exit 1 VIOLATION / exit 2 undecided (lost anchor, unsupported construct, rlimit). Known findings: known_findings.json.",
}
for p in props:
    pid = p['id']
    if pid in registry.PROPS:
        c = registry.PROPS[pid]
        m['checks'].append({
            "property_id": pid,
            "quick_cmd": "./check %s --tier quick" % pid,
            "thorough_cmd": "./check %s --tier thorough" % pid,
            "evidence_file": "/verif/evidence/%s.json" % pid,
            "replay_cmd_template": "./replay_cmd {path}",
            "engine": "vx" if c.get('units') else "gvc",
            "level_claimed": {"category": "proof", "text": c['level_text'], "design_ref": c.get('design', 'DESIGN.md 3')},
            "level_note": c['level_note'],
            "technique": c['technique'],
        })
    else:
        m['not_applicable'].append({"property_id": pid, "reason": registry.NOT_APPLICABLE.get(pid, "check not built yet (build in progress)")})
json.dump(m, open(os.path.join(VERIF, 'MANIFEST.json'), 'w'), indent=1)
print('checks:', [c['property_id'] for c in m['checks']])
