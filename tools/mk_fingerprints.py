#!/usr/bin/env python3
"""rewrites gvc/baseline.json `assumed_lexers` (fingerprints of the pp productions whose accepted language is an assumed
contract, A-pplex) from the CURRENT /repo tree.  Run only on a tree whose behaviour has been accepted (suite, golden files,
bounded stand-ins); never run by a check."""
import json, os, sys
V = os.path.dirname(os.path.dirname(os.path.abspath(__file__)))
sys.path.insert(0, V)
import gvc.engine as E, gvc.analyses as A
fns, table, comb = E.collect()
names = set(n for v in A.ASSUMED_LEXERS.values() for n in v)
by = {}
for f in fns:
    by.setdefault(f.name, []).append(f)
p = os.path.join(V, 'gvc', 'baseline.json')
b = json.load(open(p))
b['assumed_lexers'] = {n: sorted(A.lexer_fingerprint(f) for f in by[n]) for n in sorted(names) if n in by}
import hashlib
h = hashlib.sha1()
for n in sorted(by):
    for f in sorted(by[n], key=lambda f_: (f_.file, f_.line)):
        if getattr(f, 'is_parser', False) or getattr(f, 'is_combinator', False):
            h.update(n.encode())
            h.update(A.lexer_fingerprint(f).encode())
b['assumed_lexers']['__all_productions__'] = [h.hexdigest()[:16]]
json.dump(b, open(p, 'w'), indent=1)
print(len(b['assumed_lexers']), 'fingerprints; not found:', sorted(n for n in names if n not in by))
