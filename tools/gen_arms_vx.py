#!/usr/bin/env python3
"""writes units/arms.vx from tools/arms_head.vx + the regular copy arms + tools/arms_tail.vx"""
import os
D = os.path.dirname(os.path.abspath(__file__))
F = 'sv-parser-pp/src/preprocess.rs'
out = []
DIRECTIVES = ['ResetallCompilerDirective', 'TimescaleCompilerDirective', 'DefaultNettypeCompilerDirective',
              'UnconnectedDriveCompilerDirective', 'NounconnectedDriveCompilerDirective', 'CelldefineDriveCompilerDirective',
              'EndcelldefineDriveCompilerDirective', 'Pragma', 'LineCompilerDirective', 'KeywordsDirective', 'EndkeywordsDirective']
for d in DIRECTIVES:
    # kept directive: copy the whole directive, then suppress its trailing white space
    out.append("""
fn arm_enter_%(d)s<'a, N, T: AsRef<Path>, U: AsRef<Path>>(x: &'a N, $STATE, ret: &mut PreprocessedText, skip_whitespace: bool) -> (r: bool)
    where &'a N: VTryInto<Locate>
    requires old(ret).wf(), node_ok(x, s),
    ensures appended(old(ret), final(ret), s, x.fold().unwrap()),     //: C06.site.%(d)s-copies-the-directive-text C06
        recorded(old(ret), final(ret), path.as_ref_spec().id(), x.fold().unwrap()),     //: C03.site.%(d)s-records-the-range-it-copies C03
        r == true,                                                                            //: C06.site.%(d)s-suppresses-its-trailing-white-space C06
{
    let mut skip_whitespace = skip_whitespace;
//@arm %(F)s | - | preprocess_str | NodeEvent::Enter(RefNode::%(d)s(x))
//@end
    skip_whitespace
}
fn guard_enter_%(d)s(skip_whitespace: bool, strip_comments: bool, ignore_include: bool) -> (r: bool)
    ensures r == true,                                                                        //: C06.guard.%(d)s-arm-fires-under-every-configuration %(gp)s
{
//@guard %(F)s | - | preprocess_str | NodeEvent::Enter(RefNode::%(d)s(x))
//@end
}
fn arm_leave_%(d)s(skip_whitespace: bool) -> (r: bool)
    ensures r == false,                                                                       //: C06.site.%(d)s-leave-reenables-white-space C06
{
    let mut skip_whitespace = skip_whitespace;
//@arm %(F)s | - | preprocess_str | NodeEvent::Leave(RefNode::%(d)s(_))
//@end
    skip_whitespace
}""" % dict(d=d, F=F, gp=('C06,C18,C13' if 'eywords' in d else 'C06,C18')))
head = open(os.path.join(D, 'arms_head.vx')).read()
tail = open(os.path.join(D, 'arms_tail.vx')).read()
# $STATE: the parameters of preprocess_str, available to every lifted arm
STATE = "s: &str, path: T, pre_defines: &Defines, include_paths: &[U], ignore_include: bool, strip_comments: bool, resolve_depth: usize, include_depth: usize"
text = (head + '\n'.join(out) + '\n' + tail).replace('$STATE', STATE)
open(os.path.join(D, '..', 'units', 'arms.vx'), 'w').write(text)
