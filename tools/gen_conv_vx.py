#!/usr/bin/env python3
"""writes units/conv.vx (the per-impl sections are regular, so the template is generated;
the generated template is committed and is what the check uses)"""
import os
F = 'sv-parser-syntaxtree/src/any_node.rs'
out = []
def impl(sel, from_view, label, param, extra=''):
    out.append("//@implhdr %s | ~%s" % (F, sel))
    out.append("    open spec fn from_view(x: %s) -> Seq<RefNode<'static>> { %s }   //: C16.conv.%s C16,C01,C08" % (param, from_view, label))
    out.append("//@fn %s | ~%s | from" % (F, sel))
    if extra:
        out.append(extra)
    out.append("//@end")
    out.append("}")
    out.append("")
for n in range(1, 12):
    tys = ', '.join('T%d' % i for i in range(n)) + (',' if n == 1 else '')
    sel = "From<&'a (%s)> for RefNodes" % tys
    fv = ' + '.join('(&x.%d).into_view()' % i for i in range(n))
    impl(sel, fv, 'tuple%d-field-order' % n, "&'a (%s)" % tys)
for w in ['Paren', 'Brace', 'Bracket', 'ApostropheBrace']:
    impl("From<&'a %s<T>> for RefNodes" % w, 'seq![RefNode::Symbol(&x.nodes.0)] + (&x.nodes.1).into_view() + seq![RefNode::Symbol(&x.nodes.2)]', '%s-open-inner-close' % w.lower(), "&'a %s<T>" % w)
impl("From<&'a List<T, U>> for RefNodes", '(&x.nodes.0).into_view() + vec_view::<(T, U)>(x.nodes.1@)', 'list-head-then-pairs', "&'a List<T, U>")
impl("From<&'a Box<T>> for RefNodes", '(&**x).into_view()', 'box-transparent', "&'a Box<T>")
impl("From<&'a Option<T>> for RefNodes", "match *x { Some(t) => (&t).into_view(), None => Seq::<RefNode<'static>>::empty() }", 'option-some-or-nothing', "&'a Option<T>")
impl("From<&'a Vec<T>> for RefNodes", 'vec_view::<T>(x@)', 'vec-elements-in-order', "&'a Vec<T>", """//@proof start
        let ghost x0 = x@;
//@forloop 0 using slice_iter
            invariant vx_it0.elems() == x0, 0 <= vx_it0.pos() <= x0.len(), ret@ == vec_view::<T>(x0.take(vx_it0.pos())),
            ensures vx_it0.pos() == x0.len(),
            decreases x0.len() - vx_it0.pos(),
//@proof before /ret\\.append/
            proof { lemma_vec_view_snoc::<T>(x0, vx_it0.pos() - 1); }
//@proof before /ret\\.(v)?into\\(\\)/
        proof { assert(x0.take(x0.len() as int) =~= x0); }""")
impl("From<&'a Locate> for RefNodes", 'seq![RefNode::Locate(x)]', 'locate-is-leaf', "&'a Locate")
impl("From<Vec<RefNode<'a>>> for RefNodes", 'x@', 'vec-wrap', "Vec<RefNode<'a>>")
HEAD = open(os.path.join(os.path.dirname(__file__), 'conv_head.vx')).read()
open(os.path.join(os.path.dirname(__file__), '..', 'units', 'conv.vx'), 'w').write(HEAD + '\n'.join(out) + '\n} // verus!\nfn main() {}\n')
