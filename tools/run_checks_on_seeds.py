#!/usr/bin/env python3
"""run_checks_on_seeds.py [IDS..]: apply every confirmed seeded change (seeded/<id>/patch.diff) and every benign
patch (seeded/benign/*.diff) to a scratch worktree of /repo HEAD and run all claimed checks against it
(VERIF_REPO / VERIF_OUT).  Updates seeded/<id>/meta.json and writes seeded/results.json + seeded/RESULTS.md."""
import json, os, re, shutil, subprocess, sys, time, glob
VERIF = os.path.dirname(os.path.dirname(os.path.abspath(__file__)))
SHARD = os.environ.get('SHARD', '0/1')
SI, SN = [int(x) for x in SHARD.split('/')]
WT = '/tmp/seedchk-wt%d' % SI
OUT = '/tmp/seedchk-out%d' % SI

def sh(cmd, cwd=None, env=None):
    e = dict(os.environ)
    if env: e.update(env)
    p = subprocess.run(cmd, shell=True, cwd=cwd, env=e, stdout=subprocess.PIPE, stderr=subprocess.STDOUT)
    return p.returncode, p.stdout.decode('utf-8', 'replace')

def run_all(checks):
    verdicts = {}
    for c in checks:
        rc, o = sh('./check %s --tier quick' % c, cwd=VERIF, env=dict(VERIF_REPO=WT, VERIF_OUT=OUT))
        vio = [l for l in o.split('\n') if l.startswith('VIOLATION')]
        und = [l for l in o.split('\n') if l.startswith('UNDECIDED')]
        crashed = rc not in (0, 1, 2) or (rc == 1 and not vio)
        verdicts[c] = dict(exit=rc, crashed=crashed, violations=[re.sub(r' replay=\S+', '', v)[:300] for v in vio][:8], undecided=[u[:240] for u in und][:3])
    return verdicts

def main():
    ids = [a for a in sys.argv[1:] if not a.startswith('--')]
    checks = [c['property_id'] for c in json.load(open(os.path.join(VERIF, 'MANIFEST.json')))['checks']]
    items = []
    for d in sorted(glob.glob(os.path.join(VERIF, 'seeded', 'C*-*'))):
        if os.path.exists(os.path.join(d, 'patch.diff')):
            items.append((os.path.basename(d), os.path.join(d, 'patch.diff'), 'seeded'))
    for b in sorted(glob.glob(os.path.join(VERIF, 'seeded', 'benign', '*.diff'))):
        items.append((os.path.basename(b)[:-5], b, 'benign'))
    if ids:
        items = [i for i in items if i[0] in ids or i[0].split('-')[0] in ids]
    items = [it for k, it in enumerate(items) if k % SN == SI]
    if os.path.exists(WT):
        sh('git -C /repo worktree remove --force %s' % WT)
    rc, o = sh('git -C /repo worktree add --detach %s HEAD' % WT)
    assert rc == 0, o
    results = {}
    rp = os.path.join(VERIF, 'seeded', 'results.json' if SN == 1 else 'results-%d.json' % SI)
    if os.path.exists(rp) and ids and SN == 1:
        results = json.load(open(rp))
    try:
        for sid, patch, kind in items:
            sh('git checkout -- . && git clean -fdq', cwd=WT)
            rc, o = sh('git apply %s' % patch, cwd=WT)
            if rc != 0:
                results[sid] = dict(kind=kind, applies=False, error=o[-200:])
                print(sid, 'DOES NOT APPLY', flush=True)
                continue
            t0 = time.time()
            v = run_all(checks)
            r = dict(kind=kind, applies=True, property=sid.split('-')[0] if kind == 'seeded' else None,
                     caught_by=sorted(c for c, x in v.items() if x['violations']),
                     undecided_in=sorted(c for c, x in v.items() if x['exit'] == 2),
                     crashed=sorted(c for c, x in v.items() if x['crashed']),
                     violations={c: x['violations'] for c, x in v.items() if x['violations']},
                     undecided={c: x['undecided'] for c, x in v.items() if x['undecided']}, wall_s=round(time.time() - t0, 1))
            results[sid] = r
            print(sid, kind, 'caught_by', r['caught_by'], 'undecided', r['undecided_in'], 'crashed', r['crashed'], flush=True)
            if kind == 'seeded':
                mp = os.path.join(VERIF, 'seeded', sid, 'meta.json')
                m = json.load(open(mp))
                m['checks'] = v
                m['caught_by'] = r['caught_by']
                m['undecided_in'] = r['undecided_in']
                m['own_property_verdict'] = ('VIOLATION' if m['property'] in r['caught_by'] else 'undecided (exit 2)' if m['property'] in r['undecided_in'] else 'missed (exit 0)')
                json.dump(m, open(mp, 'w'), indent=1)
            json.dump(results, open(rp, 'w'), indent=1)
    finally:
        sh('git -C /repo worktree remove --force %s' % WT)
        shutil.rmtree(OUT, ignore_errors=True)
    if SN != 1:
        return
    write_table(results)


def write_table(results):
    lines = ['| change | kind | own property | caught by (VIOLATION) | undecided (exit 2) |', '|---|---|---|---|---|']
    for sid in sorted(results):
        r = results[sid]
        if not r.get('applies'):
            lines.append('| %s | %s | - | does not apply | |' % (sid, r['kind']))
            continue
        own = r.get('property')
        ownv = '-' if not own else ('**VIOLATION**' if own in r['caught_by'] else 'undecided' if own in r['undecided_in'] else 'missed')
        lines.append('| %s | %s | %s | %s | %s |' % (sid, r['kind'], ownv, ' '.join(r['caught_by']) or '-', ' '.join(r['undecided_in']) or '-'))
    open(os.path.join(VERIF, 'seeded', 'RESULTS.md'), 'w').write('\n'.join(lines) + '\n')

if __name__ == '__main__':
    if len(sys.argv) > 1 and sys.argv[1] == '--merge':
        res = {}
        rp0 = os.path.join(VERIF, 'seeded', 'results.json')
        if '--update' in sys.argv and os.path.exists(rp0):
            res = json.load(open(rp0))          # partial run: keep the verdicts of the patches that were not re-run
        for f in sorted(glob.glob(os.path.join(VERIF, 'seeded', 'results-*.json'))):
            res.update(json.load(open(f)))
            os.remove(f)
        json.dump(res, open(os.path.join(VERIF, 'seeded', 'results.json'), 'w'), indent=1)
        write_table(res)
    else:
        main()
