#!/usr/bin/env python3
"""validate_seeds.py [IDS..]: for every seeded change under seeded/_incoming/<Cxx>/changeN.diff
  1. scratch worktree of /repo HEAD (outside /repo and /verif), shared target dir
  2. demo passes on the unchanged tree
  3. with the change: builds, the 120-test suite passes, the demo fails
  4. every claimed check is run against the changed tree (VERIF_REPO / VERIF_OUT), verdicts recorded
Writes seeded/<Cxx>-<N>/{patch.diff, demo.rs, meta.json} for confirmed changes."""
import json, os, re, shutil, subprocess, sys, time
VERIF = os.path.dirname(os.path.dirname(os.path.abspath(__file__)))
# SEED_ROUND=2: seeded/_incoming2, ids Cxx-3 / Cxx-4, summary in validation_summary2.json; SEED_DEST: where confirmed
# seeds and the summary are written (default: this /verif; a snapshot run passes the real /verif)
ROUND = int(os.environ.get('SEED_ROUND', '1'))
DEST = os.environ.get('SEED_DEST', VERIF)
INC = os.path.join(DEST, 'seeded', '_incoming' if ROUND == 1 else '_incoming%d' % ROUND)
OFFSET = 2 * (ROUND - 1)
TAG = os.environ.get('SEED_TAG', '')            # parallel validations: own worktree, target dir and summary file
NOCHECKS = os.environ.get('SEED_NOCHECKS') == '1'  # confirm only (suite + demo); the checks are run by tools/run_checks_on_seeds.py
WT = '/tmp/seedval-wt' + TAG
TGT = '/tmp/seedval-target' + TAG
OUT = '/tmp/seedval-out' + TAG

def sh(cmd, cwd=None, env=None, timeout=3600):
    e = dict(os.environ, CARGO_NET_OFFLINE='true', CARGO_TARGET_DIR=TGT)
    if env: e.update(env)
    p = subprocess.run(cmd, shell=True, cwd=cwd, env=e, stdout=subprocess.PIPE, stderr=subprocess.STDOUT, timeout=timeout)
    return p.returncode, p.stdout.decode('utf-8', 'replace')

def main():
    ids = sys.argv[1:]
    seeds = []
    for d in sorted(os.listdir(INC)):
        for n in (1, 2):
            if os.path.exists(os.path.join(INC, d, 'change%d.diff' % n)) and (not ids or d in ids or '%s-%d' % (d, n + OFFSET) in ids):
                seeds.append((d, n))
    if os.path.exists(WT):
        sh('git -C /repo worktree remove --force %s' % WT)
    rc, o = sh('git -C /repo worktree add --detach %s HEAD' % WT)
    assert rc == 0, o
    checks = [c['property_id'] for c in json.load(open(os.path.join(VERIF, 'MANIFEST.json')))['checks']]
    summary = []
    try:
        for d, n in seeds:
            sid = '%s-%d' % (d, n + OFFSET)
            t0 = time.time()
            patch = os.path.join(INC, d, 'change%d.diff' % n)
            demo = os.path.join(INC, d, 'demo%d.rs' % n)
            meta = dict(id=sid, property=d, ran=[])
            sh('git checkout -- . && git clean -fdq', cwd=WT)
            shutil.copy(demo, os.path.join(WT, 'sv-parser/examples/seeddemo.rs'))
            # a demonstration that drives the memo-capacity hook needs the hook's cfg flag (the suite is run WITHOUT it)
            denv = dict(RUSTFLAGS='--cfg sv_parser_verif', CARGO_TARGET_DIR=TGT + '-hook') if 'set_memo_capacity' in open(demo).read() else None
            rc0, o0 = sh('cargo run --offline -q -p sv-parser --example seeddemo', cwd=WT, env=denv)
            meta['demo_unchanged_exit'] = rc0
            meta['ran'].append('unchanged tree: cargo run --offline -p sv-parser --example <demo> -> exit %d' % rc0)
            rc, o = sh('git apply %s' % patch, cwd=WT)
            meta['applies'] = (rc == 0)
            if rc != 0:
                meta['error'] = o[-300:]
                summary.append(meta); print(sid, 'DOES NOT APPLY'); continue
            if denv:
                os.remove(os.path.join(WT, 'sv-parser/examples/seeddemo.rs'))     # needs the hook flag; the suite runs without it
            rct, ot = sh('cargo test --workspace --no-fail-fast --offline 2>&1', cwd=WT)
            if denv:
                shutil.copy(demo, os.path.join(WT, 'sv-parser/examples/seeddemo.rs'))
            passed = sum(int(x) for x in re.findall(r'test result: \w+\. (\d+) passed', ot))
            failed = sum(int(x) for x in re.findall(r'test result: \w+\. \d+ passed; (\d+) failed', ot))
            meta['suite'] = dict(exit=rct, passed=passed, failed=failed)
            meta['ran'].append('changed tree: cargo test --workspace --no-fail-fast --offline -> %d passed, %d failed' % (passed, failed))
            rc1, o1 = sh('cargo run --offline -q -p sv-parser --example seeddemo', cwd=WT, env=denv)
            meta['demo_changed_exit'] = rc1
            meta['demo_changed_tail'] = o1.strip().split('\n')[-1][:300]
            meta['ran'].append('changed tree: cargo run --offline -p sv-parser --example <demo> -> exit %d' % rc1)
            meta['confirmed'] = (rc0 == 0 and rct == 0 and failed == 0 and passed >= 120 and rc1 != 0)
            # run the checks against the changed tree
            os.remove(os.path.join(WT, 'sv-parser/examples/seeddemo.rs'))
            verdicts = {}
            for c in ([] if NOCHECKS else checks):
                rcc, oc = sh('./check %s --tier quick' % c, cwd=VERIF, env=dict(VERIF_REPO=WT, VERIF_OUT=OUT))
                vio = [l for l in oc.split('\n') if l.startswith('VIOLATION')]
                verdicts[c] = dict(exit=rcc, violations=[re.sub(r' replay=\S+', '', v)[:260] for v in vio][:6],
                                   undecided=[l[:200] for l in oc.split('\n') if l.startswith('UNDECIDED')][:3])
            meta['checks'] = verdicts
            meta['caught_by'] = sorted(c for c, v in verdicts.items() if v['exit'] == 1)
            meta['undecided_in'] = sorted(c for c, v in verdicts.items() if v['exit'] == 2)
            meta['wall_s'] = round(time.time() - t0, 1)
            summary.append(meta)
            print(sid, 'confirmed' if meta['confirmed'] else 'NOT CONFIRMED', 'suite', passed, failed, 'demo', rc0, rc1, 'caught_by', meta['caught_by'], 'undecided', meta['undecided_in'], flush=True)
            if meta['confirmed']:
                dst = os.path.join(DEST, 'seeded', sid)
                os.makedirs(dst, exist_ok=True)
                shutil.copy(patch, os.path.join(dst, 'patch.diff'))
                shutil.copy(demo, os.path.join(dst, 'demo.rs'))
                readme = open(os.path.join(INC, d, 'README.md')).read() if os.path.exists(os.path.join(INC, d, 'README.md')) else ''
                meta['needs_to_manifest'] = 'see the sub-agent description below'
                meta['description_from_author'] = readme[:6000]
                json.dump(meta, open(os.path.join(dst, 'meta.json'), 'w'), indent=1)
    finally:
        sh('git -C /repo worktree remove --force %s' % WT)
        shutil.rmtree(TGT, ignore_errors=True)
        shutil.rmtree(TGT + '-hook', ignore_errors=True)
        shutil.rmtree(OUT, ignore_errors=True)
    json.dump(summary, open(os.path.join(DEST, 'seeded', 'validation_summary.json' if ROUND == 1 else 'validation_summary%d%s.json' % (ROUND, TAG)), 'w'), indent=1)

if __name__ == '__main__':
    main()
