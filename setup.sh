#!/bin/bash
# offline setup: nothing to download; warm the Verus cache once and make sure the tools exist
set -e
cd "$(dirname "$0")"
command -v verus >/dev/null
mkdir -p build evidence replays
exit 0
