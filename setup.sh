#!/bin/bash
# offline setup: nothing to download; warm the Verus cache once and make sure the tools exist
set -e
cd "$(dirname "$0")"
command -v verus >/dev/null
mkdir -p build evidence replays
# pre-build the replay crate (used by the bounded stand-in of C06 and by the thorough tier); a failure here is not fatal
(cd replay && RUSTFLAGS='--cfg sv_parser_verif' CARGO_TARGET_DIR=/verif/replay/target CARGO_NET_OFFLINE=true cargo build --offline >/dev/null 2>&1) || true
exit 0
